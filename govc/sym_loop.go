package main

// Loops: cut at the head with invariant, havoc of the modified locations, variant.

import (
	"bytes"
	"crypto/sha1"
	"encoding/hex"
	"fmt"
	"go/ast"
	"go/printer"
	"go/token"
	"go/types"
	"os"
	"reflect"
	"strconv"
	"strings"
)

type havocLoc struct {
	base ast.Expr // nil when obj is set
	obj  *types.Var
	path []string
}

// modifiedLocs computes the locations a piece of code may assign.
func (fc *FuncCtx) modifiedLocs(nodes ...ast.Node) []havocLoc {
	var out []havocLoc
	seen := map[string]bool{}
	add := func(l havocLoc) {
		k := ""
		if l.obj != nil {
			k = "o:" + l.obj.Name() + strconv.Itoa(int(l.obj.Pos()))
		} else {
			k = "e:" + exprStr(l.base)
		}
		for _, p := range l.path {
			k += "/" + p
		}
		if !seen[k] {
			seen[k] = true
			out = append(out, l)
		}
	}
	var addLvalue func(e ast.Expr)
	addLvalue = func(e ast.Expr) {
		switch x := e.(type) {
		case *ast.Ident:
			if x.Name == "_" {
				return
			}
			if v, ok := fc.info.ObjectOf(x).(*types.Var); ok {
				add(havocLoc{obj: v})
			}
		case *ast.ParenExpr:
			addLvalue(x.X)
		case *ast.SelectorExpr:
			if sel := fc.info.Selections[x]; sel != nil && sel.Kind() == types.FieldVal {
				add(havocLoc{base: x})
				return
			}
			if v, ok := fc.info.ObjectOf(x.Sel).(*types.Var); ok {
				add(havocLoc{obj: v})
			}
		case *ast.IndexExpr:
			addLvalue(x.X)
		case *ast.StarExpr:
			addLvalue(x.X)
		}
	}
	for _, n := range nodes {
		if n == nil {
			continue
		}
		ast.Inspect(n, func(n ast.Node) bool {
			switch x := n.(type) {
			case *ast.AssignStmt:
				for _, l := range x.Lhs {
					addLvalue(l)
				}
			case *ast.IncDecStmt:
				addLvalue(x.X)
			case *ast.RangeStmt:
				if x.Key != nil {
					addLvalue(x.Key)
				}
				if x.Value != nil {
					addLvalue(x.Value)
				}
			case *ast.DeclStmt:
				if gd, ok := x.Decl.(*ast.GenDecl); ok {
					for _, sp := range gd.Specs {
						if vs, ok := sp.(*ast.ValueSpec); ok {
							for _, id := range vs.Names {
								addLvalue(id)
							}
						}
					}
				}
			case *ast.TypeSwitchStmt:
			case *ast.CallExpr:
				for _, l := range fc.callModifies(x) {
					add(l)
				}
			case *ast.FuncLit:
				return false
			}
			return true
		})
	}
	return out
}

// applyHavoc replaces each location by a fresh value.
func (fc *FuncCtx) applyHavoc(st *State, locs []havocLoc) {
	saved := fc.quiet
	fc.quiet = true
	defer func() { fc.quiet = saved }()
	for _, l := range locs {
		if l.obj != nil {
			if a, ok := st.alias[l.obj]; ok {
				cur := fc.eval(st, a)
				fc.assign(st, a, fc.setPath(cur, l.path, func(old Term) Term { return fc.fresh("h_"+l.obj.Name(), old.T) }))
				continue
			}
			cur, ok := st.vars[l.obj]
			if !ok {
				if !fc.isLocal(l.obj) {
					cur = fc.globalInit(st, l.obj)
				} else {
					continue // declared inside the loop
				}
			}
			st.vars[l.obj] = fc.setPath(cur, l.path, func(old Term) Term { return fc.fresh("h_"+l.obj.Name(), old.T) })
			continue
		}
		if !fc.rootKnown(st, l.base) {
			continue
		}
		cur := fc.eval(st, l.base)
		nv := fc.setPath(cur, l.path, func(old Term) Term { return fc.fresh("h_"+sanitize(exprStr(l.base)), old.T) })
		fc.assign(st, l.base, nv)
	}
}

// rootKnown: the root variable of the expression has a value in the state.
func (fc *FuncCtx) rootKnown(st *State, e ast.Expr) bool {
	switch x := e.(type) {
	case *ast.Ident:
		v, ok := fc.info.ObjectOf(x).(*types.Var)
		if !ok {
			return false
		}
		if _, ok := st.vars[v]; ok {
			return true
		}
		if _, ok := st.alias[v]; ok {
			return true
		}
		return !fc.isLocal(v)
	case *ast.SelectorExpr:
		if id, ok := x.X.(*ast.Ident); ok {
			if _, isPkg := fc.info.ObjectOf(id).(*types.PkgName); isPkg {
				return true
			}
		}
		return fc.rootKnown(st, x.X)
	case *ast.ParenExpr:
		return fc.rootKnown(st, x.X)
	case *ast.StarExpr:
		return fc.rootKnown(st, x.X)
	case *ast.IndexExpr:
		return fc.rootKnown(st, x.X)
	case *ast.UnaryExpr:
		return fc.rootKnown(st, x.X)
	}
	return false
}

// setPath rewrites the component of t at path (field names, "*" whole pointee, "[]" slice contents).
func (fc *FuncCtx) setPath(t Term, path []string, f func(old Term) Term) Term {
	if as, ok := fc.reg().ifaceAs[fc.reg().typeKey(t.T)]; ok {
		r := fc.setPath(Term{S: t.S, T: as}, path, f)
		return Term{S: r.S, T: t.T}
	}
	if len(path) == 0 {
		return f(t)
	}
	if _, ok := t.T.Underlying().(*types.Pointer); ok {
		inner := fc.reg().deref(t)
		if path[0] == "*" {
			return fc.reg().ref(fc.setPath(inner, path[1:], f), t.T)
		}
		return fc.reg().ref(fc.setPath(inner, path, f), t.T)
	}
	if path[0] == "*" {
		return fc.setPath(t, path[1:], f)
	}
	if path[0] == "[]" {
		if sl, ok := t.T.Underlying().(*types.Slice); ok {
			_, _, off, ln, cp := fc.reg().sliceParts(t)
			na := f(Term{S: "", T: types.NewArray(sl.Elem(), 0)})
			return fc.reg().mkSlice(t.T, na.S, off, ln, cp)
		}
		return f(t)
	}
	if _, ok := t.T.Underlying().(*types.Struct); ok {
		cur, ok := fc.reg().fieldOf(t, path[0])
		if !ok {
			// embedded
			si := fc.reg().StructInfo(t.T)
			for _, fl := range si.Fields {
				ft, _ := fc.reg().fieldOf(t, fl.Name)
				if _, isS := ft.T.Underlying().(*types.Struct); isS {
					if _, ok := fc.reg().fieldOf(ft, path[0]); ok {
						return fc.reg().withField(t, fl.Name, fc.setPath(ft, path, f).S)
					}
				}
			}
			panic(translateErr("modifies path: no field " + path[0] + " in " + types.TypeString(t.T, nil)))
		}
		return fc.reg().withField(t, path[0], fc.setPath(cur, path[1:], f).S)
	}
	panic(translateErr("modifies path " + path[0] + " on non-struct " + types.TypeString(t.T, nil)))
}

func (fc *FuncCtx) getPath(t Term, path []string) Term {
	if as, ok := fc.reg().ifaceAs[fc.reg().typeKey(t.T)]; ok {
		t = Term{S: t.S, T: as}
	}
	if len(path) == 0 {
		return t
	}
	if _, ok := t.T.Underlying().(*types.Pointer); ok {
		inner := fc.reg().deref(t)
		if path[0] == "*" {
			return fc.getPath(inner, path[1:])
		}
		return fc.getPath(inner, path)
	}
	if path[0] == "*" {
		return fc.getPath(t, path[1:])
	}
	if path[0] == "[]" {
		if _, ok := t.T.Underlying().(*types.Slice); ok {
			_, arr, _, _, _ := fc.reg().sliceParts(t)
			return Term{S: arr, T: types.NewArray(t.T.Underlying().(*types.Slice).Elem(), 0)}
		}
		return t
	}
	cur, ok := fc.reg().fieldOf(t, path[0])
	if !ok {
		si := fc.reg().StructInfo(t.T)
		if si != nil {
			for _, fl := range si.Fields {
				ft, _ := fc.reg().fieldOf(t, fl.Name)
				if _, isS := ft.T.Underlying().(*types.Struct); isS {
					if _, ok := fc.reg().fieldOf(ft, path[0]); ok {
						return fc.getPath(ft, path)
					}
				}
			}
		}
		panic(translateErr("path: no field " + path[0] + " in " + types.TypeString(t.T, nil)))
	}
	return fc.getPath(cur, path[1:])
}

type loopSpec struct {
	lc      *LoopContract
	ord     int
	pre     *State
	scopeAt token.Pos
}

// loopSig is the header of a loop as text (what it iterates over, or its condition) followed by a short hash of its
// body: "range m #1a2b3c4d".
func (fc *FuncCtx) loopSig(n ast.Node) string {
	hdr, body := "", ast.Node(nil)
	switch x := n.(type) {
	case *ast.RangeStmt:
		hdr, body = "range "+types.ExprString(x.X), x.Body
	case *ast.ForStmt:
		hdr, body = "for", x.Body
		if x.Cond != nil {
			hdr = "for " + types.ExprString(x.Cond)
		}
	default:
		return ""
	}
	var b bytes.Buffer
	printer.Fprint(&b, fc.w.Fset, body)
	sum := sha1.Sum(b.Bytes())
	return hdr + " #" + hex.EncodeToString(sum[:4])
}

func sigHeader(sig string) string {
	if i := strings.LastIndex(sig, " #"); i >= 0 {
		return sig[:i]
	}
	return sig
}

// loopContract finds the contract of a loop. Contracts are numbered in execution order; when the contract file
// records the loop headers (`loop N @ header`), a loop is matched by its header first, so that a loop inserted or
// removed elsewhere in the function does not shift the others; a loop whose header was rewritten falls back to its
// ordinal if nothing else claims that contract.
func (fc *FuncCtx) loopContract(n ast.Node) (*LoopContract, int) {
	fc.loopOrd++
	ord := fc.loopOrd
	var lc *LoopContract
	if fc.contract != nil && len(fc.contract.Loops) > 0 {
		if fc.loopUsed == nil {
			fc.loopUsed = map[*LoopContract]bool{}
			fc.codeSigs = map[string]int{}
			if fc.decl != nil && fc.decl.Body != nil {
				ast.Inspect(fc.decl.Body, func(nd ast.Node) bool {
					switch nd.(type) {
					case *ast.ForStmt, *ast.RangeStmt:
						full := fc.loopSig(nd)
						fc.codeSigs[full]++
						fc.codeSigs[sigHeader(full)]++
					}
					return true
				})
			}
		}
		sig := fc.loopSig(n)
		pick := func(match func(c *LoopContract) bool) *LoopContract {
			if c := fc.contract.Loops[ord]; c != nil && !fc.loopUsed[c] && match(c) {
				return c
			}
			best := 0
			for o, c := range fc.contract.Loops {
				if !fc.loopUsed[c] && match(c) && (best == 0 || o < best) {
					best = o
				}
			}
			if best != 0 {
				return fc.contract.Loops[best]
			}
			return nil
		}
		// 1. the very same loop (header and body)
		lc = pick(func(c *LoopContract) bool { return c.Sig != "" && c.Sig == sig })
		// 2. same header, for a contract whose own loop (header and body) is not in the function any more
		if lc == nil {
			lc = pick(func(c *LoopContract) bool {
				return c.Sig != "" && sigHeader(c.Sig) == sigHeader(sig) && fc.codeSigs[c.Sig] == 0
			})
		}
		// 3. the contract with this ordinal, unless its own header still exists elsewhere in the function
		if lc == nil {
			if c := fc.contract.Loops[ord]; c != nil && !fc.loopUsed[c] && (c.Sig == "" || fc.codeSigs[sigHeader(c.Sig)] == 0) {
				lc = c
			}
		}
		if lc != nil {
			fc.loopUsed[lc] = true
			if lc.Ord != 0 {
				ord = lc.Ord
			}
		} else if fc.contract.Loops[ord] != nil || ord <= len(fc.contract.Loops) {
			// a loop without a contract of its own: number it apart from the contracted ones
			fc.autoLoops++
			ord = 500 + fc.autoLoops
		}
	}
	if fc.loopSigs == nil {
		fc.loopSigs = map[int]string{}
	}
	fc.loopSigs[ord] = fc.loopSig(n)
	if lc == nil {
		// no written contract: no invariant (everything the body assigns is unknown at the head); a counting
		// loop gets its obvious variant, any other loop must be proved to terminate by a written one
		lc = &LoopContract{Auto: true}
		if fs, ok := n.(*ast.ForStmt); ok {
			lc.Decreases = fc.autoVariant(fs)
		}
		return lc, ord
	}
	if fs, ok := n.(*ast.ForStmt); ok && lc.Decreases == nil && fc.contract.Opts["nonterminating"] == "" {
		// written for a range loop (which needs no variant) or simply without one: use the header's
		if v := fc.autoVariant(fs); v != nil {
			cp := *lc
			cp.Decreases = v
			return &cp, ord
		}
	}
	return lc, ord
}

func (fc *FuncCtx) loopEnv(st *State, pre *State, at token.Pos) *CEnv {
	env := fc.codeEnv(st, at)
	if pre != nil {
		env.pre = fc.codeEnv(pre, at)
	}
	return env
}

func (fc *FuncCtx) checkInvariants(st *State, lc *LoopContract, ord int, kind string, pre *State, at token.Pos, n ast.Node) {
	for i, inv := range lc.Invariants {
		env := fc.loopEnv(st, pre, at)
		t := fc.cevalIn(env, inv, n)
		site := "loop" + strconv.Itoa(ord) + ".inv" + strconv.Itoa(i+1)
		if inv.Tag != "" {
			site = "loop" + strconv.Itoa(ord) + "." + inv.Tag
		}
		fc.oblige(st, kind, site, t.S, n, inv.Text)
	}
}

func (fc *FuncCtx) assumeInvariants(st *State, lc *LoopContract, pre *State, at token.Pos, n ast.Node) {
	for _, inv := range lc.Invariants {
		env := fc.loopEnv(st, pre, at)
		t := fc.cevalIn(env, inv, n)
		fc.assume(st, t.S)
	}
}

func (fc *FuncCtx) execFor(st *State, x *ast.ForStmt, label string) *State {
	if x.Init != nil {
		st = fc.exec(st, x.Init)
	}
	if n, cv := fc.litCountingLoop(x); cv != nil {
		return fc.execForUnrolled(st, x, cv, n, label)
	}
	if n, cv := fc.staticBound(st, x); cv != nil {
		return fc.execForUnrolled(st, x, cv, n, label)
	}
	lc, ord := fc.loopContract(x)
	at := x.Body.Lbrace
	// a counting loop `for i := 0; ...; i++` may be the rewrite of `for i := range`: the contract name of the
	// range position (range_i) then denotes i
	if cv := fc.countingVar(x); cv != nil {
		if fc.rangeAlias == nil {
			fc.rangeAlias = map[string]*types.Var{}
		}
		saved, had := fc.rangeAlias["range_i"]
		fc.rangeAlias["range_i"] = cv
		fc.rangeAlias["range_i"+strconv.Itoa(ord)] = cv
		defer func() {
			if had {
				fc.rangeAlias["range_i"] = saved
			} else {
				delete(fc.rangeAlias, "range_i")
			}
		}()
	}
	pre := st.clone()
	fc.checkInvariants(st, lc, ord, "inv.init", pre, at, x)

	locs := fc.modifiedLocs(x.Body, x.Post, x.Cond)
	locs = append(locs, fc.clauseLocs(lc.Modifies)...)
	h := st.clone()
	fc.applyHavoc(h, locs)
	fc.havocGhosts(h, x.Body, x.Post, x.Cond)
	fc.ownLoopHead(h, locs)
	fc.assumeInvariants(h, lc, pre, at, x)

	cond := tTrue()
	if x.Cond != nil {
		cond = fc.eval(h, x.Cond)
	}
	body := h.clone()
	body.guard = and(h.guard, cond.S)
	exit := h.clone()
	exit.guard = and(h.guard, not(cond.S))
	fc.cover(body, "cover.loop"+strconv.Itoa(ord), x, "loop body reachable under the invariant")
	for i, ec := range lc.Exits {
		t := fc.cevalIn(fc.loopEnv(exit, pre, at), ec, x)
		site := "loop" + strconv.Itoa(ord) + ".exit" + strconv.Itoa(i+1)
		if ec.Tag != "" {
			site = "loop" + strconv.Itoa(ord) + "." + ec.Tag
		}
		fc.oblige(exit, "loop.exit", site, t.S, x, ec.Text)
	}

	var v0 Term
	if lc.Decreases != nil {
		v0 = fc.cevalIn(fc.loopEnv(body, pre, at), lc.Decreases, x)
		fc.oblige(body, "var.bound", "loop"+strconv.Itoa(ord), "(>= "+v0.S+" 0)", x, "variant bounded below: "+lc.Decreases.Text)
	} else if fc.contract.Opts["nonterminating"] == "" {
		fc.fail(x, "loop %d has no decreases clause", ord)
	}

	tgt := &jumpTarget{label: label, isLoop: true}
	fc.breakTargets = append(fc.breakTargets, tgt)
	bodyStart := body.clone()
	fc.loopFrames = append(fc.loopFrames, loopFrame{lc: lc, ord: ord, pre: pre, bodyStart: bodyStart, at: at})
	end := fc.exec(body, x.Body)
	fc.loopFrames = fc.loopFrames[:len(fc.loopFrames)-1]
	fc.breakTargets = fc.breakTargets[:len(fc.breakTargets)-1]
	end = fc.merge(append([]*State{end}, tgt.continues...))
	if !end.dead {
		fc.ownLoopEnd(end, x.Body, x)
		fc.checkSteps(end, bodyStart, lc, ord, pre, at, x)
		if x.Post != nil {
			end = fc.exec(end, x.Post)
		}
		fc.checkInvariants(end, lc, ord, "inv.pres", pre, at, x)
		if lc.Decreases != nil {
			v1 := fc.cevalIn(fc.loopEnv(end, pre, at), lc.Decreases, x)
			fc.oblige(end, "var.dec", "loop"+strconv.Itoa(ord), "(< "+v1.S+" "+v0.S+")", x, "variant decreases: "+lc.Decreases.Text)
		}
	}
	return fc.merge(append([]*State{exit}, tgt.breaks...))
}

// litSlice returns the elements of a slice literal bound once to a local variable that is never
// assigned again (such a range is unrolled: the length is static, so this is complete).
func (fc *FuncCtx) litSlice(id *ast.Ident) []ast.Expr {
	obj, ok := fc.info.ObjectOf(id).(*types.Var)
	if !ok || !fc.isLocal(obj) {
		return nil
	}
	var elts []ast.Expr
	defs, other := 0, 0
	ast.Inspect(fc.decl.Body, func(n ast.Node) bool {
		switch a := n.(type) {
		case *ast.AssignStmt:
			for i, l := range a.Lhs {
				if lid, ok := l.(*ast.Ident); ok && fc.info.ObjectOf(lid) == obj {
					if a.Tok == token.DEFINE && len(a.Lhs) == len(a.Rhs) {
						if cl, ok := a.Rhs[i].(*ast.CompositeLit); ok {
							if _, isSl := fc.typeOf(cl).Underlying().(*types.Slice); isSl {
								defs++
								elts = cl.Elts
								continue
							}
						}
					}
					other++
				}
			}
		case *ast.UnaryExpr:
			if a.Op == token.AND {
				if lid, ok := a.X.(*ast.Ident); ok && fc.info.ObjectOf(lid) == obj {
					other++
				}
			}
		case *ast.IndexExpr:
			// element writes fields[i] = ... are caught as assignments with IndexExpr lhs below
		}
		return true
	})
	ast.Inspect(fc.decl.Body, func(n ast.Node) bool {
		if a, ok := n.(*ast.AssignStmt); ok {
			for _, l := range a.Lhs {
				if ix, ok := l.(*ast.IndexExpr); ok {
					if lid, ok := ix.X.(*ast.Ident); ok && fc.info.ObjectOf(lid) == obj {
						other++
					}
				}
			}
		}
		return true
	})
	if defs != 1 || other != 0 || len(elts) > 64 {
		return nil
	}
	for _, e := range elts {
		if _, ok := e.(*ast.KeyValueExpr); ok {
			return nil
		}
	}
	return elts
}

func (fc *FuncCtx) execRangeUnrolled(st *State, x *ast.RangeStmt, elts []ast.Expr, label string) *State {
	var vobj types.Object
	if id, ok := x.Value.(*ast.Ident); ok {
		vobj = fc.info.ObjectOf(id)
	}
	var exits []*State
	cur := st
	for _, e := range elts {
		if cur.dead {
			break
		}
		if vobj != nil {
			cur.exprAlias[vobj] = e
		}
		tgt := &jumpTarget{label: label, isLoop: true}
		fc.breakTargets = append(fc.breakTargets, tgt)
		end := fc.exec(cur, x.Body)
		fc.breakTargets = fc.breakTargets[:len(fc.breakTargets)-1]
		exits = append(exits, tgt.breaks...)
		cur = fc.merge(append([]*State{end}, tgt.continues...))
	}
	return fc.merge(append([]*State{cur}, exits...))
}

func (fc *FuncCtx) execRange(st *State, x *ast.RangeStmt, label string) *State {
	if id, ok := unparen(x.X).(*ast.Ident); ok && x.Value != nil {
		keyBlank := x.Key == nil
		if kid, ok := x.Key.(*ast.Ident); ok && kid.Name == "_" {
			keyBlank = true
		}
		if elts := fc.litSlice(id); elts != nil && keyBlank {
			return fc.execRangeUnrolled(st, x, elts, label)
		}
	}
	coll := fc.eval(st, x.X)
	if _, ok := coll.T.Underlying().(*types.Pointer); ok {
		coll = fc.derefChecked(st, coll, x, "range operand")
	}
	lc, ord := fc.loopContract(x)
	if fc.lockLoop(st, x, lc) {
		return st
	}
	at := x.Body.Lbrace
	ghostName := "range_i" + strconv.Itoa(ord)
	var lenS string
	var elemOf func(st *State, i string) Term
	isMap, isChan := false, false
	switch u := coll.T.Underlying().(type) {
	case *types.Slice:
		_, arr, off, ln, _ := fc.reg().sliceParts(coll)
		lenS = ln
		elemOf = func(st *State, i string) Term {
			v := Term{S: "(select " + arr + " (+ " + off + " " + i + "))", T: u.Elem()}
			fc.elemFact(st, v)
			return v
		}
	case *types.Array:
		lenS = strconv.FormatInt(u.Len(), 10)
		elemOf = func(st *State, i string) Term {
			v := Term{S: "(select " + coll.S + " " + i + ")", T: u.Elem()}
			fc.elemFact(st, v)
			return v
		}
	case *types.Map:
		isMap = true
	case *types.Chan:
		isChan = true
	case *types.Basic:
		if u.Info()&types.IsInteger != 0 {
			lenS = coll.S
			elemOf = nil
		} else {
			fc.fail(x, "range over string not supported")
		}
	default:
		fc.fail(x, "unsupported range operand %s", types.TypeString(coll.T, nil))
	}
	st.ghost[ghostName] = mkMath("0")
	st.ghost["range_i"] = mkMath("0")
	// `for i := range s`: the contract may call the position i (the loop may be the rewrite of a counting loop)
	var keyObj *types.Var
	if kid, ok := x.Key.(*ast.Ident); ok && kid.Name != "_" && x.Tok == token.DEFINE {
		switch coll.T.Underlying().(type) {
		case *types.Slice, *types.Array, *types.Basic:
			keyObj, _ = fc.info.Defs[kid].(*types.Var)
		}
	}
	if keyObj != nil {
		st.vars[keyObj] = Term{S: "0", T: keyObj.Type()}
	}
	// a range over a map visits every key exactly once (the map is checked not to be modified in the body):
	// ghost set "visited" = keys already iterated; empty at entry, a subset of the domain at the head,
	// equal to the domain at exit
	seenName := "range_seen" + strconv.Itoa(ord)
	var mapSort, keySort string
	if isMap {
		mapSort = fc.reg().SortOf(coll.T)
		keySort = fc.reg().SortOf(coll.T.Underlying().(*types.Map).Key())
		empty := Term{S: "((as const (Array " + keySort + " Bool)) false)", T: coll.T}
		st.ghost[seenName] = empty
		st.ghost["range_seen"] = empty
	}
	pre := st.clone()
	fc.checkInvariants(st, lc, ord, "inv.init", pre, at, x)

	locs := fc.modifiedLocs(x.Body)
	locs = append(locs, fc.clauseLocs(lc.Modifies)...)
	h := st.clone()
	fc.applyHavoc(h, locs)
	fc.havocGhosts(h, x.Body)
	idx := fc.fresh("range_i", tInt)
	h.ghost[ghostName] = mkMath(idx.S)
	h.ghost["range_i"] = mkMath(idx.S)
	if keyObj != nil {
		h.vars[keyObj] = Term{S: idx.S, T: keyObj.Type()}
	}
	if !isMap && !isChan {
		fc.assume(h, "(and (<= 0 "+idx.S+") (<= "+idx.S+" "+lenS+"))")
	} else {
		fc.assume(h, "(<= 0 "+idx.S+")")
	}
	var seen string
	var seenNext Term
	mapStable := false
	if isMap {
		mapStable = !fc.locsTouch(locs, x.X)
		fc.nfresh++
		seen = fmt.Sprintf("range_seen_%d", fc.nfresh)
		fc.decls = append(fc.decls, fmt.Sprintf("(declare-const %s (Array %s Bool))", seen, keySort))
		h.ghost[seenName] = Term{S: seen, T: coll.T}
		h.ghost["range_seen"] = Term{S: seen, T: coll.T}
	}
	fc.assumeInvariants(h, lc, pre, at, x)

	body := h.clone()
	exit := h.clone()
	switch {
	case isMap:
		more := fc.freshBool("range_more")
		body.guard = and(h.guard, more)
		exit.guard = and(h.guard, not(more))
		mt := coll.T.Underlying().(*types.Map)
		s := fc.reg().SortOf(coll.T)
		k := fc.fresh("range_k", mt.Key())
		fc.assume(body, "(select (dom_"+s+" "+coll.S+") "+k.S+")")
		if mapStable {
			fc.assume(body, "(not (select "+seen+" "+k.S+"))")
			seenNext = Term{S: "(store " + seen + " " + k.S + " true)", T: coll.T}
			// every visited key is in the domain; at exit nothing is left
			fc.assume(h, "(forall ((k "+keySort+")) (! (=> (select "+seen+" k) (select (dom_"+mapSort+" "+coll.S+") k)) :pattern ((select "+seen+" k))))")
			fc.assume(exit, "(= "+seen+" (dom_"+mapSort+" "+coll.S+"))")
		}
		if x.Key != nil {
			fc.bindRangeVar(body, x.Key, k, x.Tok == token.DEFINE)
		}
		if x.Value != nil {
			v := Term{S: "(select (val_" + s + " " + coll.S + ") " + k.S + ")", T: mt.Elem()}
			fc.elemFact(body, v)
			fc.bindRangeVar(body, x.Value, v, x.Tok == token.DEFINE)
		}
	case isChan:
		more := fc.freshBool("range_more")
		body.guard = and(h.guard, more)
		exit.guard = and(h.guard, not(more))
		if x.Key != nil {
			v := fc.fresh("recv", coll.T.Underlying().(*types.Chan).Elem())
			fc.bindRangeVar(body, x.Key, v, x.Tok == token.DEFINE)
		}
	default:
		body.guard = and(h.guard, "(< "+idx.S+" "+lenS+")")
		exit.guard = and(h.guard, "(>= "+idx.S+" "+lenS+")")
		if x.Key != nil {
			fc.bindRangeVar(body, x.Key, Term{S: idx.S, T: tInt}, x.Tok == token.DEFINE)
		}
		if x.Value != nil && elemOf != nil {
			fc.bindRangeVar(body, x.Value, elemOf(body, idx.S), x.Tok == token.DEFINE)
		}
	}
	fc.cover(body, "cover.loop"+strconv.Itoa(ord), x, "loop body reachable under the invariant")

	tgt := &jumpTarget{label: label, isLoop: true}
	fc.breakTargets = append(fc.breakTargets, tgt)
	bodyStart := body.clone()
	fc.loopFrames = append(fc.loopFrames, loopFrame{lc: lc, ord: ord, pre: pre, bodyStart: bodyStart, at: at})
	end := fc.exec(body, x.Body)
	fc.loopFrames = fc.loopFrames[:len(fc.loopFrames)-1]
	fc.breakTargets = fc.breakTargets[:len(fc.breakTargets)-1]
	end = fc.merge(append([]*State{end}, tgt.continues...))
	if !end.dead {
		fc.checkSteps(end, bodyStart, lc, ord, pre, at, x)
		next := mkMath("(+ " + idx.S + " 1)")
		end.ghost[ghostName] = next
		end.ghost["range_i"] = next
		if keyObj != nil {
			end.vars[keyObj] = Term{S: next.S, T: keyObj.Type()}
		}
		if isMap {
			// the key of this iteration joins the visited set at the end of the body (an inner loop may have
			// overwritten the unnumbered alias)
			if mapStable {
				end.ghost[seenName] = seenNext
			}
			end.ghost["range_seen"] = end.ghost[seenName]
		}
		fc.checkInvariants(end, lc, ord, "inv.pres", pre, at, x)
		if lc.Decreases != nil {
			// explicit variant (optional for range loops, which terminate by construction)
			v0 := fc.cevalIn(fc.loopEnv(body, pre, at), lc.Decreases, x)
			v1 := fc.cevalIn(fc.loopEnv(end, pre, at), lc.Decreases, x)
			fc.oblige(end, "var.dec", "loop"+strconv.Itoa(ord), "(and (>= "+v0.S+" 0) (< "+v1.S+" "+v0.S+"))", x, "variant decreases: "+lc.Decreases.Text)
		}
	}
	out := fc.merge(append([]*State{exit}, tgt.breaks...))
	return out
}

func (fc *FuncCtx) bindRangeVar(st *State, e ast.Expr, v Term, define bool) {
	if id, ok := e.(*ast.Ident); ok {
		if id.Name == "_" {
			return
		}
		if define {
			if obj, ok := fc.info.Defs[id].(*types.Var); ok {
				st.vars[obj] = Term{S: v.S, T: obj.Type()}
				return
			}
		}
	}
	fc.assign(st, e, v)
}

// checkSteps asserts the per-iteration postconditions at the end of the loop body.
func (fc *FuncCtx) checkSteps(end, bodyStart *State, lc *LoopContract, ord int, pre *State, at token.Pos, n ast.Node) {
	endAt := at
	switch l := n.(type) {
	case *ast.ForStmt:
		endAt = l.Body.Rbrace
	case *ast.RangeStmt:
		endAt = l.Body.Rbrace
	}
	for i, sc := range lc.Steps {
		env := fc.loopEnv(end, pre, endAt) // locals declared in the body are visible at its end
		env.iter = fc.codeEnv(bodyStart, at)
		t := fc.cevalIn(env, sc, n)
		site := "loop" + strconv.Itoa(ord) + ".step" + strconv.Itoa(i+1)
		if sc.Tag != "" {
			site = "loop" + strconv.Itoa(ord) + "." + sc.Tag
		}
		fc.oblige(end, "step", site, t.S, n, sc.Text)
	}
}

// locsTouch reports whether one of the havoc locations may be (part of) the value of e.
func (fc *FuncCtx) locsTouch(locs []havocLoc, e ast.Expr) bool {
	root := func(e ast.Expr) *types.Var {
		for {
			switch x := e.(type) {
			case *ast.Ident:
				v, _ := fc.info.ObjectOf(x).(*types.Var)
				return v
			case *ast.SelectorExpr:
				if id, ok := x.X.(*ast.Ident); ok {
					if _, isPkg := fc.info.ObjectOf(id).(*types.PkgName); isPkg {
						v, _ := fc.info.ObjectOf(x.Sel).(*types.Var)
						return v
					}
				}
				e = x.X
			case *ast.ParenExpr:
				e = x.X
			case *ast.StarExpr:
				e = x.X
			case *ast.IndexExpr:
				e = x.X
			case *ast.UnaryExpr:
				e = x.X
			default:
				return nil
			}
		}
	}
	r := root(e)
	if r == nil {
		return true
	}
	for _, l := range locs {
		if l.obj != nil {
			if l.obj == r {
				return true
			}
			continue
		}
		if lr := root(l.base); lr == nil || lr == r {
			return true
		}
	}
	return false
}

// autoVariant: for `for ...; i < e; i++` (also <=, i += c with a positive literal, and the mirrored
// decreasing forms) the variant e - i (resp. i - e); nil when the loop has another shape.
func (fc *FuncCtx) autoVariant(fs *ast.ForStmt) *Clause {
	cond, ok := unparen(fs.Cond).(*ast.BinaryExpr)
	if fs.Cond == nil || !ok || fs.Post == nil {
		return nil
	}
	var v ast.Expr
	up := false
	switch p := fs.Post.(type) {
	case *ast.IncDecStmt:
		v, up = p.X, p.Tok == token.INC
	case *ast.AssignStmt:
		if len(p.Lhs) != 1 || len(p.Rhs) != 1 {
			return nil
		}
		lit, ok := p.Rhs[0].(*ast.BasicLit)
		if !ok || lit.Kind != token.INT || lit.Value == "0" {
			return nil
		}
		switch p.Tok {
		case token.ADD_ASSIGN:
			v, up = p.Lhs[0], true
		case token.SUB_ASSIGN:
			v, up = p.Lhs[0], false
		default:
			return nil
		}
	default:
		return nil
	}
	id, ok := unparen(v).(*ast.Ident)
	if !ok {
		return nil
	}
	var bound ast.Expr
	lhsIs := func(e ast.Expr) bool {
		x, ok := unparen(e).(*ast.Ident)
		return ok && x.Name == id.Name
	}
	extra := ""
	switch {
	case up && (cond.Op == token.LSS || cond.Op == token.LEQ) && lhsIs(cond.X):
		bound = cond.Y
	case up && (cond.Op == token.GTR || cond.Op == token.GEQ) && lhsIs(cond.Y):
		bound = cond.X
	case !up && (cond.Op == token.GTR || cond.Op == token.GEQ) && lhsIs(cond.X):
		bound = cond.Y
	case !up && (cond.Op == token.LSS || cond.Op == token.LEQ) && lhsIs(cond.Y):
		bound = cond.X
	default:
		return nil
	}
	if cond.Op == token.LEQ || cond.Op == token.GEQ {
		extra = " + 1"
	}
	// the bound must be expressible in the contract language: identifiers, selections, len(), literals
	okExpr := true
	ast.Inspect(bound, func(n ast.Node) bool {
		switch x := n.(type) {
		case nil:
		case *ast.Ident, *ast.SelectorExpr, *ast.BasicLit, *ast.ParenExpr:
		case *ast.CallExpr:
			if f, ok := x.Fun.(*ast.Ident); !ok || f.Name != "len" {
				okExpr = false
			}
		case *ast.BinaryExpr:
			if x.Op != token.ADD && x.Op != token.SUB {
				okExpr = false
			}
		default:
			okExpr = false
		}
		return okExpr
	})
	if !okExpr {
		return nil
	}
	text := types.ExprString(bound) + " - " + id.Name + extra
	if !up {
		text = id.Name + " - (" + types.ExprString(bound) + ")" + extra
	}
	e, err := parseCExpr(text)
	if err != nil {
		if os.Getenv("GOVC_DEBUG") != "" {
			fmt.Fprintln(os.Stderr, "autoVariant:", text, err)
		}
		return nil
	}
	return &Clause{Kind: "decreases", Text: text + " (derived from the loop header)", Expr: e, Src: "auto"}
}

// countingVar: the variable of `for i := 0; <cond>; i++` when the body does not assign it.
func (fc *FuncCtx) countingVar(x *ast.ForStmt) *types.Var {
	as, ok := x.Init.(*ast.AssignStmt)
	if !ok || as.Tok != token.DEFINE || len(as.Lhs) != 1 || len(as.Rhs) != 1 {
		return nil
	}
	lit, ok := as.Rhs[0].(*ast.BasicLit)
	if !ok || lit.Value != "0" {
		return nil
	}
	id, ok := as.Lhs[0].(*ast.Ident)
	if !ok {
		return nil
	}
	inc, ok := x.Post.(*ast.IncDecStmt)
	if !ok || inc.Tok != token.INC {
		return nil
	}
	pid, ok := inc.X.(*ast.Ident)
	if !ok || pid.Name != id.Name {
		return nil
	}
	v, _ := fc.info.Defs[id].(*types.Var)
	if v == nil {
		return nil
	}
	for _, l := range fc.modifiedLocs(x.Body) {
		if l.obj == v {
			return nil
		}
	}
	return v
}

// litCountingLoop: `for i := 0; i < len(lit); i++` over a slice literal bound once to a local (see litSlice), with a
// body that does not assign i: the number of iterations is static.
func (fc *FuncCtx) litCountingLoop(x *ast.ForStmt) (int, *types.Var) {
	cv := fc.countingVar(x)
	if cv == nil {
		return 0, nil
	}
	cond, ok := unparen(x.Cond).(*ast.BinaryExpr)
	if x.Cond == nil || !ok || cond.Op != token.LSS {
		return 0, nil
	}
	if id, ok := unparen(cond.X).(*ast.Ident); !ok || fc.info.ObjectOf(id) != cv {
		return 0, nil
	}
	call, ok := unparen(cond.Y).(*ast.CallExpr)
	if !ok || len(call.Args) != 1 {
		return 0, nil
	}
	if f, ok := call.Fun.(*ast.Ident); !ok || f.Name != "len" {
		return 0, nil
	}
	lid, ok := unparen(call.Args[0]).(*ast.Ident)
	if !ok {
		return 0, nil
	}
	elts := fc.litSlice(lid)
	if elts == nil {
		return 0, nil
	}
	return len(elts), cv
}

// execForUnrolled runs the body once per position with the counter a literal (complete: the bound is static).
func (fc *FuncCtx) execForUnrolled(st *State, x *ast.ForStmt, cv *types.Var, n int, label string) *State {
	var exits []*State
	cur := st
	for k := 0; k < n; k++ {
		if cur.dead {
			break
		}
		cur.vars[cv] = Term{S: strconv.Itoa(k), T: cv.Type()}
		tgt := &jumpTarget{label: label, isLoop: true}
		fc.breakTargets = append(fc.breakTargets, tgt)
		end := fc.exec(cur, x.Body)
		fc.breakTargets = fc.breakTargets[:len(fc.breakTargets)-1]
		exits = append(exits, tgt.breaks...)
		cur = fc.merge(append([]*State{end}, tgt.continues...))
	}
	if !cur.dead {
		cur.vars[cv] = Term{S: strconv.Itoa(n), T: cv.Type()}
	}
	return fc.merge(append([]*State{cur}, exits...))
}

// havocGhosts: at a loop head the ghost counters and "latest event" ghosts the body may change are unknown, like the
// variables it assigns (otherwise an invariant that relates a counter to a loop variable would pin the head state to
// the first iteration). Which ghosts the body may change is decided syntactically and conservatively: calls by
// callee name (calls_<f>, <f>_err, <f>_<ghost output>), any send (sends_*, lastsent_*), any select (full_*), any call
// (jslast); the bodies of repository functions without a contract (executed in place) and of function literals count.
func (fc *FuncCtx) havocGhosts(h *State, nodes ...ast.Node) {
	calls := map[string]bool{}
	anySend, anySelect, anyCall, anyRecv := false, false, false, false
	seen := map[string]bool{}
	var scan func(n ast.Node, depth int)
	scan = func(n ast.Node, depth int) {
		if n == nil || reflect.ValueOf(n).IsNil() {
			return
		}
		ast.Inspect(n, func(n ast.Node) bool {
			switch x := n.(type) {
			case *ast.SendStmt:
				anySend = true
			case *ast.SelectStmt:
				anySelect = true
			case *ast.UnaryExpr:
				if x.Op == token.ARROW {
					anyRecv = true
				}
			case *ast.CallExpr:
				if tv, ok := fc.info.Types[x.Fun]; ok && tv.IsType() {
					return true
				}
				anyCall = true
				var id *ast.Ident
				switch f := unparen(x.Fun).(type) {
				case *ast.Ident:
					id = f
				case *ast.SelectorExpr:
					id = f.Sel
				}
				if id == nil {
					return true
				}
				calls[id.Name] = true
				if fn, ok := fc.info.ObjectOf(id).(*types.Func); ok && depth < 5 {
					key := fn.FullName()
					if fc.w.Contracts[key] == nil && !seen[key] {
						if decl := fc.w.FuncDecls[key]; decl != nil && decl.Body != nil {
							seen[key] = true
							if pkg := fc.w.FuncPkg[key]; pkg != nil {
								saved := fc.info
								fc.info = pkg.TypesInfo
								scan(decl.Body, depth+1)
								fc.info = saved
							}
						}
					}
				}
			}
			return true
		})
	}
	for _, n := range nodes {
		scan(n, 0)
	}
	for k, g := range h.ghost {
		touched := false
		switch {
		case strings.HasPrefix(k, "range_"):
		case strings.HasPrefix(k, "calls_"):
			touched = calls[strings.TrimPrefix(k, "calls_")]
		case strings.HasPrefix(k, "sends_"), strings.HasPrefix(k, "lastsent_"):
			touched = anySend
		case strings.HasPrefix(k, "recvs_"), strings.HasPrefix(k, "lastrecv_"):
			touched = anyRecv
		case strings.HasPrefix(k, "full_"):
			touched = anySelect
		case k == "jslast":
			touched = anyCall
		default:
			if i := strings.Index(k, "_"); i > 0 {
				touched = calls[k[:i]]
			}
		}
		if touched {
			h.ghost[k] = fc.fresh("hg_"+sanitize(k), g.T)
		}
	}
}
