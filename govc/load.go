package main

// Loading of the repository packages and of the contract files.

import (
	"bufio"
	"fmt"
	"go/ast"
	"go/parser"
	"go/token"
	"go/types"
	"os"
	"path/filepath"
	"sort"
	"strings"

	"golang.org/x/tools/go/packages"
)

const repoModule = "github.com/EdgeCast/vflow"

type Clause struct {
	Kind string // requires ensures modifies invariant decreases assert
	Text string
	Expr CExpr
	Src  string // file:line
	Tag  string // optional label "[name]" for obligations
}

type LoopContract struct {
	Invariants []*Clause
	Decreases  *Clause
	Modifies   []*Clause // extra havoc targets
	Steps      []*Clause // per-iteration postconditions; iter(e) is e at the start of the iteration
	Exits      []*Clause // asserted when the loop condition becomes false (not on break)
	Acquires   string    // "m R": the loop locks every element of m in mode R
	Releases   string    // "m": the loop unlocks every element of m
}

type ParamDecl struct {
	Name string
	Type types.Type
}

type Contract struct {
	Key         string // canonical function key
	Pkg         *packages.Package
	Requires    []*Clause
	Ensures     []*Clause
	Modifies    []*Clause
	Slots       []*Clause // JSON slot specifications: Tag is the key, Expr the value written under it
	CallAsserts []*Clause // Tag is the callee name; checked at every call of it, with arg0.. bound to the arguments
	ExitAsserts []*Clause // checked at every return with the function's locals in scope; not visible to callers
	Loops       map[int]*LoopContract
	Ghost       []ParamDecl // ghost result variables
	Trusted     bool        // extern / assumed
	Pure        bool
	Src         string
	Opts        map[string]string
	Params      []string // explicit parameter names (externs)
	Results     []string
}

type Macro struct {
	Name   string
	Params []ParamDecl
	Result types.Type
	Body   CExpr
	Text   string
	Pkg    *packages.Package
}

type Uninterp struct {
	Name   string
	Params []ParamDecl
	Result types.Type
}

type Lemma struct {
	Name   string
	Params []ParamDecl
	Body   CExpr
	Text   string
	Pkg    *packages.Package
	Src    string
	Logic  string
}

type GlobalInv struct {
	Clause *Clause
	Pkg    *packages.Package
}

type ObjInv struct {
	Elem     string
	Clause   *Clause
	Pkg      *packages.Package
	ElemType types.Type
}

type Axiom struct {
	Name string
	Body CExpr
	Text string
	Pkg  *packages.Package
}

type World struct {
	Fset         *token.FileSet
	Pkgs         map[string]*packages.Package // by path
	AllPkgs      map[string]*packages.Package // including deps
	Reg          *Registry
	Contracts    map[string]*Contract
	Macros       map[string]*Macro
	Uninterps    map[string]*Uninterp
	Lemmas       []*Lemma
	Axioms       []*Axiom
	GlobalInvs   []*GlobalInv
	FuncDecls    map[string]*ast.FuncDecl
	FuncPkg      map[string]*packages.Package
	FuncObj      map[string]*types.Func
	NoOps        map[string]bool // functions treated as no-ops (logging)
	NoReturn     map[string]bool // functions that terminate the process (log.Fatal)
	Problems     []string
	RepoDir      string
	GhostPkg     *types.Package
	Guarded      map[string]bool    // pkgname.Struct.Field protected by the struct's embedded RWMutex
	ReflectReads map[string]bool    // functions that read everything reachable from their arguments
	ChanInvs     map[string]*ObjInv // by global variable full name (pkgpath.name)
	PoolInvs     map[string]*ObjInv
	ChanPreds    map[string]*ObjInv // ghost predicates on channel values
	Intrinsics   map[string][]string
}

func loadWorld(repo string, verifDir string) (*World, error) {
	w := &World{Pkgs: map[string]*packages.Package{}, AllPkgs: map[string]*packages.Package{}, Reg: newRegistry(), Contracts: map[string]*Contract{}, Macros: map[string]*Macro{}, Uninterps: map[string]*Uninterp{},
		FuncDecls: map[string]*ast.FuncDecl{}, FuncPkg: map[string]*packages.Package{}, FuncObj: map[string]*types.Func{}, NoOps: map[string]bool{}, NoReturn: map[string]bool{}, RepoDir: repo}
	fset := token.NewFileSet()
	w.Fset = fset
	w.Intrinsics = map[string][]string{}
	w.Guarded = map[string]bool{}
	w.ReflectReads = map[string]bool{}
	w.ChanInvs = map[string]*ObjInv{}
	w.PoolInvs = map[string]*ObjInv{}
	w.ChanPreds = map[string]*ObjInv{}
	// ghost package: types that exist only in specifications
	gp := types.NewPackage("ghost", "ghost")
	strm := types.NewStruct([]*types.Var{
		types.NewField(token.NoPos, gp, "D", types.NewSlice(types.Typ[types.Uint8]), false),
		types.NewField(token.NoPos, gp, "Pos", types.Typ[types.Int], false)}, nil)
	tn := types.NewTypeName(token.NoPos, gp, "Stream", nil)
	types.NewNamed(tn, strm, nil)
	gp.Scope().Insert(tn)
	var jf []*types.Var
	for _, n := range []string{"Ph", "Dp", "F1", "F2", "F3", "F4", "F5", "F6"} {
		jf = append(jf, types.NewField(token.NoPos, gp, n, tMath, false))
	}
	htn := types.NewTypeName(token.NoPos, gp, "Hash", nil)
	types.NewNamed(htn, types.NewStruct([]*types.Var{types.NewField(token.NoPos, gp, "W", types.NewSlice(types.Typ[types.Uint8]), false)}, nil), nil)
	gp.Scope().Insert(htn)
	jtn := types.NewTypeName(token.NoPos, gp, "JSON", nil)
	types.NewNamed(jtn, types.NewStruct(jf, nil), nil)
	gp.Scope().Insert(jtn)
	gp.MarkComplete()
	w.GhostPkg = gp
	cfg := &packages.Config{
		Mode:       packages.NeedName | packages.NeedFiles | packages.NeedSyntax | packages.NeedTypes | packages.NeedTypesInfo | packages.NeedImports | packages.NeedDeps | packages.NeedCompiledGoFiles,
		Dir:        repo,
		Fset:       fset,
		BuildFlags: []string{"-tags=verif"},
		Env:        append(os.Environ(), "GOFLAGS=-mod=mod", "GOPROXY=off", "GOSUMDB=off", "GOTOOLCHAIN=local"),
		ParseFile: func(fset *token.FileSet, filename string, src []byte) (*ast.File, error) {
			return parser.ParseFile(fset, filename, src, parser.ParseComments|parser.SkipObjectResolution)
		},
	}
	pkgs, err := packages.Load(cfg, "./reader", "./ipfix", "./netflow/v5", "./netflow/v9", "./sflow", "./packet", "./mirror", "./producer", "./vflow")
	if err != nil {
		return nil, err
	}
	for _, p := range pkgs {
		if len(p.Errors) > 0 {
			return nil, fmt.Errorf("package %s does not type-check: %v", p.PkgPath, p.Errors[0])
		}
		w.Pkgs[p.PkgPath] = p
	}
	packages.Visit(pkgs, nil, func(p *packages.Package) { w.AllPkgs[p.PkgPath] = p })
	// index function declarations of repo packages
	for _, p := range pkgs {
		for _, f := range p.Syntax {
			for _, d := range f.Decls {
				fd, ok := d.(*ast.FuncDecl)
				if !ok || fd.Body == nil {
					continue
				}
				obj, _ := p.TypesInfo.Defs[fd.Name].(*types.Func)
				if obj == nil {
					continue
				}
				k := obj.FullName()
				w.FuncDecls[k] = fd
				w.FuncPkg[k] = p
				w.FuncObj[k] = obj
			}
		}
	}
	// contract files: extern first, then per package
	var files []struct {
		path string
		pkg  *packages.Package
	}
	ext, _ := filepath.Glob(filepath.Join(verifDir, "contracts", "*.contracts"))
	sort.Strings(ext)
	for _, e := range ext {
		files = append(files, struct {
			path string
			pkg  *packages.Package
		}{e, nil})
	}
	var paths []string
	for path := range w.Pkgs {
		paths = append(paths, path)
	}
	sort.Strings(paths)
	for _, path := range paths {
		p := w.Pkgs[path]
		rel := strings.TrimPrefix(strings.TrimPrefix(path, repoModule), "/")
		cf := filepath.Join(repo, rel, "zz_contracts_verif.go")
		if _, err := os.Stat(cf); err != nil {
			// fall back to the mirror
			m := filepath.Join(verifDir, "contracts", "mirror", strings.ReplaceAll(rel, "/", "_")+"_zz_contracts_verif.go")
			if _, err2 := os.Stat(m); err2 == nil {
				w.Problems = append(w.Problems, "contract file missing in repo, mirror used: "+cf)
				cf = m
			} else {
				continue
			}
		}
		files = append(files, struct {
			path string
			pkg  *packages.Package
		}{cf, p})
	}
	// two passes: ghost fields first (they change struct sorts), then everything else
	var parsed [][]rawDirective
	for _, f := range files {
		ds, err := readDirectives(f.path)
		if err != nil {
			return nil, err
		}
		parsed = append(parsed, ds)
		for _, d := range ds {
			if d.kw == "ghost" {
				if err := w.addGhost(d, f.pkg); err != nil {
					return nil, fmt.Errorf("%s: %v", d.src, err)
				}
			}
			if d.kw == "typeas" {
				fs := strings.Fields(d.text)
				if len(fs) != 2 {
					return nil, fmt.Errorf("%s: expected: typeas Type ModelType", d.src)
				}
				it, err := w.resolveType(fs[0], f.pkg)
				if err != nil {
					return nil, fmt.Errorf("%s: %v", d.src, err)
				}
				mt, err := w.resolveType(fs[1], f.pkg)
				if err != nil {
					return nil, fmt.Errorf("%s: %v", d.src, err)
				}
				w.Reg.typeAs[w.Reg.typeKey(it)] = mt
			}
			if d.kw == "ifaceas" {
				if err := w.addIfaceAs(d, f.pkg); err != nil {
					return nil, fmt.Errorf("%s: %v", d.src, err)
				}
			}
		}
	}
	for i, f := range files {
		if err := w.addDirectives(parsed[i], f.pkg); err != nil {
			return nil, err
		}
	}
	return w, nil
}

type rawDirective struct {
	kw   string
	text string
	src  string
	sub  []rawDirective
}

var topKeywords = map[string]bool{"ghost": true, "pred": true, "spec": true, "uninterp": true, "axiom": true, "lemma": true, "func": true, "noop": true, "ifaceas": true, "extern": true, "globalinv": true, "intrinsic": true, "typeas": true, "chaninv": true, "poolinv": true, "noreturn": true, "guarded": true, "reflectreads": true, "chanpred": true}
var subKeywords = map[string]bool{"requires": true, "ensures": true, "modifies": true, "loop": true, "invariant": true, "decreases": true, "trusted": true, "pure": true, "ghostout": true, "opt": true, "params": true, "results": true, "havoc": true, "step": true, "exitassert": true, "slot": true, "acquires": true, "releases": true, "callassert": true, "exit": true}

func readDirectives(path string) ([]rawDirective, error) {
	f, err := os.Open(path)
	if err != nil {
		return nil, err
	}
	defer f.Close()
	var out []rawDirective
	sc := bufio.NewScanner(f)
	sc.Buffer(make([]byte, 1<<20), 1<<20)
	ln := 0
	var cur *rawDirective    // current top directive
	var curSub *rawDirective // current sub clause (for continuation)
	for sc.Scan() {
		ln++
		line := strings.TrimSpace(sc.Text())
		if !strings.HasPrefix(line, "//@") {
			continue
		}
		line = strings.TrimSpace(strings.TrimPrefix(line, "//@"))
		if line == "" || strings.HasPrefix(line, "#") {
			continue
		}
		// strip trailing comment " // ..."
		if i := strings.Index(line, " // "); i >= 0 {
			line = strings.TrimSpace(line[:i])
		}
		kw := line
		rest := ""
		if i := strings.IndexAny(line, " \t"); i >= 0 {
			kw, rest = line[:i], strings.TrimSpace(line[i+1:])
		}
		src := fmt.Sprintf("%s:%d", filepath.Base(filepath.Dir(path))+"/"+filepath.Base(path), ln)
		switch {
		case topKeywords[kw]:
			out = append(out, rawDirective{kw: kw, text: rest, src: src})
			cur = &out[len(out)-1]
			curSub = nil
		case subKeywords[kw] && cur != nil:
			cur.sub = append(cur.sub, rawDirective{kw: kw, text: rest, src: src})
			curSub = &cur.sub[len(cur.sub)-1]
		default:
			// continuation
			if curSub != nil {
				curSub.text += " " + line
			} else if cur != nil {
				cur.text += " " + line
			} else {
				return nil, fmt.Errorf("%s: stray contract line %q", src, line)
			}
		}
	}
	return out, nil
}

// resolveType parses a Go type expression in the scope of pkg.
func (w *World) resolveType(s string, pkg *packages.Package) (types.Type, error) {
	s = strings.TrimSpace(s)
	switch s {
	case "mathint":
		return tMath, nil
	case "any":
		return types.NewInterfaceType(nil, nil), nil
	}
	e, err := parser.ParseExpr(s)
	if err != nil {
		return nil, fmt.Errorf("bad type %q: %v", s, err)
	}
	return w.typeFromAST(e, pkg)
}

func (w *World) findPkgByName(name string, pkg *packages.Package) *types.Package {
	if pkg != nil {
		if pkg.Name == name {
			return pkg.Types
		}
		for _, imp := range pkg.Imports {
			if imp.Name == name {
				return imp.Types
			}
		}
	}
	if name == "ghost" {
		return w.GhostPkg
	}
	var cands []string
	for path, p := range w.AllPkgs {
		if p.Name == name {
			cands = append(cands, path)
		}
	}
	sort.Slice(cands, func(i, j int) bool { // prefer std (no dot) and shorter
		di, dj := strings.Contains(cands[i], "."), strings.Contains(cands[j], ".")
		if di != dj {
			return !di
		}
		return len(cands[i]) < len(cands[j])
	})
	if len(cands) > 0 {
		return w.AllPkgs[cands[0]].Types
	}
	return nil
}

func (w *World) typeFromAST(e ast.Expr, pkg *packages.Package) (types.Type, error) {
	switch x := e.(type) {
	case *ast.Ident:
		if x.Name == "mathint" {
			return tMath, nil
		}
		if pkg != nil {
			if o := pkg.Types.Scope().Lookup(x.Name); o != nil {
				if tn, ok := o.(*types.TypeName); ok {
					return tn.Type(), nil
				}
			}
		}
		if o := types.Universe.Lookup(x.Name); o != nil {
			if tn, ok := o.(*types.TypeName); ok {
				return tn.Type(), nil
			}
		}
		return nil, fmt.Errorf("unknown type %s", x.Name)
	case *ast.SelectorExpr:
		id, ok := x.X.(*ast.Ident)
		if !ok {
			return nil, fmt.Errorf("bad qualified type")
		}
		tp := w.findPkgByName(id.Name, pkg)
		if tp == nil {
			return nil, fmt.Errorf("unknown package %s", id.Name)
		}
		o := tp.Scope().Lookup(x.Sel.Name)
		if tn, ok := o.(*types.TypeName); ok {
			return tn.Type(), nil
		}
		return nil, fmt.Errorf("unknown type %s.%s", id.Name, x.Sel.Name)
	case *ast.StarExpr:
		t, err := w.typeFromAST(x.X, pkg)
		if err != nil {
			return nil, err
		}
		return types.NewPointer(t), nil
	case *ast.ArrayType:
		t, err := w.typeFromAST(x.Elt, pkg)
		if err != nil {
			return nil, err
		}
		if x.Len == nil {
			return types.NewSlice(t), nil
		}
		if bl, ok := x.Len.(*ast.BasicLit); ok {
			var n int64
			fmt.Sscan(bl.Value, &n)
			return types.NewArray(t, n), nil
		}
	case *ast.MapType:
		k, err := w.typeFromAST(x.Key, pkg)
		if err != nil {
			return nil, err
		}
		v, err := w.typeFromAST(x.Value, pkg)
		if err != nil {
			return nil, err
		}
		return types.NewMap(k, v), nil
	case *ast.InterfaceType:
		return types.NewInterfaceType(nil, nil), nil
	case *ast.ParenExpr:
		return w.typeFromAST(x.X, pkg)
	}
	return nil, fmt.Errorf("unsupported type expression")
}

// "ghost field reader.Reader.base []byte = data"
func (w *World) addGhost(d rawDirective, pkg *packages.Package) error {
	fs := strings.Fields(d.text)
	if len(fs) < 3 || fs[0] != "field" {
		return fmt.Errorf("expected: ghost field Type.name type [= init]")
	}
	i := strings.LastIndex(fs[1], ".")
	if i < 0 {
		return fmt.Errorf("bad ghost field name")
	}
	tn, fn := fs[1][:i], fs[1][i+1:]
	rest := strings.Join(fs[2:], " ")
	init := ""
	if j := strings.Index(rest, "="); j >= 0 {
		init = strings.TrimSpace(rest[j+1:])
		rest = strings.TrimSpace(rest[:j])
	}
	ty, err := w.resolveType(rest, pkg)
	if err != nil {
		return err
	}
	st, err := w.resolveType(tn, pkg)
	if err != nil {
		return err
	}
	q := qualName(st)
	w.Reg.ghost[q] = append(w.Reg.ghost[q], fieldInfo{Name: fn, Type: ty, Ghost: true, Init: init})
	return nil
}

// "ifaceas io.ReadSeeker *sflow.Stream"
func (w *World) addIfaceAs(d rawDirective, pkg *packages.Package) error {
	fs := strings.Fields(d.text)
	if len(fs) != 2 {
		return fmt.Errorf("expected: ifaceas IfaceType ModelType")
	}
	it, err := w.resolveType(fs[0], pkg)
	if err != nil {
		return err
	}
	mt, err := w.resolveType(fs[1], pkg)
	if err != nil {
		return err
	}
	w.Reg.ifaceAs[w.Reg.typeKey(it)] = mt
	return nil
}

func (w *World) parseParams(s string, pkg *packages.Package) ([]ParamDecl, error) {
	var out []ParamDecl
	s = strings.TrimSpace(s)
	if s == "" {
		return nil, nil
	}
	for _, part := range splitTop(s, ',') {
		part = strings.TrimSpace(part)
		i := strings.IndexAny(part, " \t")
		if i < 0 {
			return nil, fmt.Errorf("parameter %q needs a type", part)
		}
		t, err := w.resolveType(part[i+1:], pkg)
		if err != nil {
			return nil, err
		}
		out = append(out, ParamDecl{part[:i], t})
	}
	return out, nil
}

func splitTop(s string, sep rune) []string {
	var out []string
	d := 0
	last := 0
	for i, c := range s {
		switch c {
		case '(', '[', '{':
			d++
		case ')', ']', '}':
			d--
		}
		if c == sep && d == 0 {
			out = append(out, s[last:i])
			last = i + 1
		}
	}
	out = append(out, s[last:])
	return out
}

// header "name(params) result = body"  or "name(params): body"
func splitHeader(s string) (name, params, after string, err error) {
	i := strings.Index(s, "(")
	if i < 0 {
		return "", "", "", fmt.Errorf("expected '(' in %q", s)
	}
	name = strings.TrimSpace(s[:i])
	d := 0
	for j := i; j < len(s); j++ {
		if s[j] == '(' {
			d++
		} else if s[j] == ')' {
			d--
			if d == 0 {
				return name, s[i+1 : j], strings.TrimSpace(s[j+1:]), nil
			}
		}
	}
	return "", "", "", fmt.Errorf("unbalanced parentheses in %q", s)
}

func (w *World) funcKey(text string, pkg *packages.Package) string {
	text = strings.TrimSpace(text)
	if pkg == nil {
		return text
	}
	// "(*Reader).Uint16" -> "(*path.Reader).Uint16" ; "NewReader" -> "path.NewReader"
	if strings.HasPrefix(text, "(") {
		j := strings.Index(text, ")")
		recv := text[1:j]
		star := ""
		if strings.HasPrefix(recv, "*") {
			star = "*"
			recv = recv[1:]
		}
		if !strings.Contains(recv, ".") {
			recv = pkg.PkgPath + "." + recv
		}
		return "(" + star + recv + ")" + text[j+1:]
	}
	if !strings.Contains(text, ".") {
		return pkg.PkgPath + "." + text
	}
	return text
}

func (w *World) addDirectives(ds []rawDirective, pkg *packages.Package) error {
	for _, d := range ds {
		var err error
		switch d.kw {
		case "ghost", "ifaceas", "typeas":
		case "chanpred":
			// chanpred name(elemType) m: expr
			i := strings.Index(d.text, ":")
			hd := strings.TrimSpace(d.text[:i])
			j := strings.Index(hd, "(")
			k := strings.Index(hd, ")")
			if i < 0 || j < 0 || k < j {
				err = fmt.Errorf("expected: chanpred name(ElemType) m: expr")
				break
			}
			et, e := w.resolveType(hd[j+1:k], pkg)
			if e != nil {
				err = e
				break
			}
			body, e := parseCExpr(d.text[i+1:])
			if e != nil {
				err = e
				break
			}
			name := strings.TrimSpace(hd[:j])
			w.ChanPreds[name] = &ObjInv{Elem: strings.TrimSpace(hd[k+1:]), Clause: &Clause{Kind: "chanpred", Text: strings.TrimSpace(d.text[i+1:]), Expr: body, Src: d.src}, Pkg: pkg, ElemType: et}
			w.Uninterps[name] = &Uninterp{Name: name, Params: []ParamDecl{{"c", types.NewChan(types.SendRecv, et)}}, Result: tBool}
		case "chaninv", "poolinv":
			i := strings.Index(d.text, ":")
			hd := strings.Fields(d.text[:i])
			if i < 0 || len(hd) != 2 {
				err = fmt.Errorf("expected: %s <global> <elem>: expr", d.kw)
				break
			}
			body, e := parseCExpr(d.text[i+1:])
			if e != nil {
				err = e
				break
			}
			oi := &ObjInv{Elem: hd[1], Clause: &Clause{Kind: d.kw, Text: strings.TrimSpace(d.text[i+1:]), Expr: body, Src: d.src}, Pkg: pkg}
			key := hd[0]
			if pkg != nil && !strings.Contains(key, ".") {
				key = pkg.PkgPath + "." + key
			}
			if d.kw == "chaninv" {
				w.ChanInvs[key] = oi
			} else {
				w.PoolInvs[key] = oi
			}
		case "intrinsic":
			fs := strings.Fields(d.text)
			if len(fs) < 2 {
				err = fmt.Errorf("expected: intrinsic <func> <kind> args...")
				break
			}
			w.Intrinsics[w.funcKey(fs[0], pkg)] = fs[1:]
		case "globalinv":
			body, e := parseCExpr(d.text)
			if e != nil {
				err = e
				break
			}
			w.GlobalInvs = append(w.GlobalInvs, &GlobalInv{Clause: &Clause{Kind: "globalinv", Text: d.text, Expr: body, Src: d.src}, Pkg: pkg})
		case "noop":
			for _, f := range strings.Fields(d.text) {
				w.NoOps[f] = true
			}
		case "guarded":
			for _, f := range strings.Fields(d.text) {
				if pkg != nil && strings.Count(f, ".") == 1 {
					f = pkg.Name + "." + f
				}
				w.Guarded[f] = true
			}
		case "reflectreads":
			for _, f := range strings.Fields(d.text) {
				w.ReflectReads[f] = true
			}
		case "noreturn":
			for _, f := range strings.Fields(d.text) {
				w.NoReturn[f] = true
			}
		case "pred", "spec":
			name, params, after, e := splitHeader(d.text)
			if e != nil {
				err = e
				break
			}
			ps, e := w.parseParams(params, pkg)
			if e != nil {
				err = e
				break
			}
			i := strings.Index(after, "=")
			if i < 0 {
				err = fmt.Errorf("expected '=' in %s", d.kw)
				break
			}
			var rt types.Type = tBool
			if d.kw == "spec" {
				rts := strings.TrimSpace(after[:i])
				if rts != "" {
					if rt, e = w.resolveType(rts, pkg); e != nil {
						err = e
						break
					}
				}
			}
			body, e := parseCExpr(after[i+1:])
			if e != nil {
				err = e
				break
			}
			w.Macros[name] = &Macro{Name: name, Params: ps, Result: rt, Body: body, Text: d.text, Pkg: pkg}
		case "uninterp":
			name, params, after, e := splitHeader(d.text)
			if e != nil {
				err = e
				break
			}
			ps, e := w.parseParams(params, pkg)
			if e != nil {
				err = e
				break
			}
			rt, e := w.resolveType(after, pkg)
			if e != nil {
				err = e
				break
			}
			w.Uninterps[name] = &Uninterp{name, ps, rt}
		case "axiom":
			i := strings.Index(d.text, ":")
			body, e := parseCExpr(d.text[i+1:])
			if e != nil {
				err = e
				break
			}
			w.Axioms = append(w.Axioms, &Axiom{Name: strings.TrimSpace(d.text[:i]), Body: body, Text: d.text, Pkg: pkg})
		case "lemma":
			name, params, after, e := splitHeader(d.text)
			if e != nil {
				err = e
				break
			}
			ps, e := w.parseParams(params, pkg)
			if e != nil {
				err = e
				break
			}
			after = strings.TrimPrefix(after, ":")
			body, e := parseCExpr(after)
			if e != nil {
				err = e
				break
			}
			w.Lemmas = append(w.Lemmas, &Lemma{Name: name, Params: ps, Body: body, Text: d.text, Pkg: pkg, Src: d.src})
		case "func", "extern":
			key := w.funcKey(d.text, pkg)
			c := &Contract{Key: key, Pkg: pkg, Loops: map[int]*LoopContract{}, Src: d.src, Trusted: d.kw == "extern", Opts: map[string]string{}}
			var curLoop *LoopContract
			for _, s := range d.sub {
				mk := func() (*Clause, error) {
					txt := s.text
					tag := ""
					if strings.HasPrefix(txt, "[") {
						j := strings.Index(txt, "]")
						tag = txt[1:j]
						txt = strings.TrimSpace(txt[j+1:])
					}
					e, er := parseCExpr(txt)
					if er != nil {
						return nil, fmt.Errorf("%s: %v", s.src, er)
					}
					return &Clause{Kind: s.kw, Text: txt, Expr: e, Src: s.src, Tag: tag}, nil
				}
				switch s.kw {
				case "requires":
					cl, e := mk()
					if e != nil {
						return e
					}
					c.Requires = append(c.Requires, cl)
				case "ensures":
					cl, e := mk()
					if e != nil {
						return e
					}
					c.Ensures = append(c.Ensures, cl)
				case "modifies", "havoc":
					for _, part := range splitTop(s.text, ',') {
						part = strings.TrimSpace(part)
						if part == "" || part == "nothing" {
							continue
						}
						e, er := parseCExpr(part)
						if er != nil {
							return fmt.Errorf("%s: %v", s.src, er)
						}
						cl := &Clause{Kind: "modifies", Text: part, Expr: e, Src: s.src}
						if curLoop != nil {
							curLoop.Modifies = append(curLoop.Modifies, cl)
						} else {
							c.Modifies = append(c.Modifies, cl)
						}
					}
				case "loop":
					var n int
					fmt.Sscan(s.text, &n)
					curLoop = &LoopContract{}
					c.Loops[n] = curLoop
				case "invariant":
					if curLoop == nil {
						return fmt.Errorf("%s: invariant outside loop", s.src)
					}
					cl, e := mk()
					if e != nil {
						return e
					}
					curLoop.Invariants = append(curLoop.Invariants, cl)
				case "acquires", "releases":
					if curLoop == nil {
						return fmt.Errorf("%s: %s outside loop", s.src, s.kw)
					}
					if s.kw == "acquires" {
						curLoop.Acquires = strings.TrimSpace(s.text)
					} else {
						curLoop.Releases = strings.TrimSpace(s.text)
					}
				case "exit":
					if curLoop == nil {
						return fmt.Errorf("%s: exit outside loop", s.src)
					}
					cl, e := mk()
					if e != nil {
						return e
					}
					curLoop.Exits = append(curLoop.Exits, cl)
				case "step":
					if curLoop == nil {
						return fmt.Errorf("%s: step outside loop", s.src)
					}
					cl, e := mk()
					if e != nil {
						return e
					}
					curLoop.Steps = append(curLoop.Steps, cl)
				case "callassert":
					i := strings.Index(s.text, ":")
					if i < 0 {
						return fmt.Errorf("%s: expected: callassert <callee>: expr", s.src)
					}
					e, er := parseCExpr(s.text[i+1:])
					if er != nil {
						return fmt.Errorf("%s: %v", s.src, er)
					}
					c.CallAsserts = append(c.CallAsserts, &Clause{Kind: "callassert", Text: strings.TrimSpace(s.text[i+1:]), Expr: e, Src: s.src, Tag: strings.TrimSpace(s.text[:i])})
				case "slot":
					fs := strings.SplitN(strings.TrimSpace(s.text), " ", 2)
					if len(fs) != 2 {
						return fmt.Errorf("%s: expected: slot <key> <expr>", s.src)
					}
					e, er := parseCExpr(fs[1])
					if er != nil {
						return fmt.Errorf("%s: %v", s.src, er)
					}
					c.Slots = append(c.Slots, &Clause{Kind: "slot", Text: fs[1], Expr: e, Src: s.src, Tag: fs[0]})
				case "exitassert":
					cl, e := mk()
					if e != nil {
						return e
					}
					c.ExitAsserts = append(c.ExitAsserts, cl)
				case "decreases":
					if curLoop == nil {
						return fmt.Errorf("%s: decreases outside loop", s.src)
					}
					cl, e := mk()
					if e != nil {
						return e
					}
					curLoop.Decreases = cl
				case "trusted":
					c.Trusted = true
				case "pure":
					c.Pure = true
				case "params":
					c.Params = strings.Fields(strings.ReplaceAll(s.text, ",", " "))
				case "results":
					c.Results = strings.Fields(strings.ReplaceAll(s.text, ",", " "))
				case "ghostout":
					ps, e := w.parseParams(s.text, pkg)
					if e != nil {
						return fmt.Errorf("%s: %v", s.src, e)
					}
					c.Ghost = append(c.Ghost, ps...)
				case "opt":
					fs := strings.Fields(s.text)
					if len(fs) >= 1 {
						v := strings.Join(fs[1:], " ")
						if v == "" {
							v = "yes"
						}
						if old := c.Opts[fs[0]]; old != "" {
							v = old + " " + v
						}
						c.Opts[fs[0]] = v
					}
				}
			}
			if old, dup := w.Contracts[key]; dup {
				return fmt.Errorf("%s: duplicate contract for %s (also at %s)", d.src, key, old.Src)
			}
			w.Contracts[key] = c
		}
		if err != nil {
			return fmt.Errorf("%s: %v", d.src, err)
		}
	}
	return nil
}
