package main

// Ground obligations generated from tables in the source (C20): one per entry of the built-in
// IPFIX information model and one per entry of the shipped scripts/ipfix.elements.

import (
	"fmt"
	"go/ast"
	"go/constant"
	"go/token"
	"go/types"
	"os"
	"path/filepath"
	"sort"
	"strconv"
	"strings"

	"gopkg.in/yaml.v2"
)

type modelEntry struct {
	pen      int64
	id       int64
	fieldID  int64
	name     string
	typeName string // key used in FieldTypes[...] ("" when the type is given otherwise)
	typeVal  int64  // value of the Type expression when constant or resolvable
	typeOK   bool   // typeName is a key of FieldTypes (or Type is a FieldType constant other than Unknown)
	pos      string
}

func (w *World) groundInfoModel() (fc *FuncCtx) {
	pkg := w.Pkgs[repoModule+"/ipfix"]
	fc = &FuncCtx{w: w, pkg: pkg, info: pkg.TypesInfo, key: repoModule + "/ipfix.InfoModel", counter: map[string]int{}, allVars: map[*types.Var]bool{}, usedContracts: map[string]bool{}, sideSeen: map[string]bool{},
		contract: &Contract{Loops: map[int]*LoopContract{}, Opts: map[string]string{}, Pkg: pkg}}
	defer func() {
		if r := recover(); r != nil {
			if te, ok := r.(translateErr); ok {
				fc.translateFail = string(te)
				return
			}
			panic(r)
		}
	}()
	st := &State{guard: "true", vars: map[types.Object]Term{}, alias: map[types.Object]ast.Expr{}, ghost: map[string]Term{}, held: map[string]string{}}
	var modelLit, typesLit *ast.CompositeLit
	for _, f := range pkg.Syntax {
		for _, d := range f.Decls {
			gd, ok := d.(*ast.GenDecl)
			if !ok || gd.Tok != token.VAR {
				continue
			}
			for _, sp := range gd.Specs {
				vs := sp.(*ast.ValueSpec)
				for i, n := range vs.Names {
					if i >= len(vs.Values) {
						continue
					}
					if cl, ok := vs.Values[i].(*ast.CompositeLit); ok {
						switch n.Name {
						case "InfoModel":
							modelLit = cl
						case "FieldTypes":
							typesLit = cl
						}
					}
				}
			}
		}
	}
	if modelLit == nil || typesLit == nil {
		panic(translateErr("InfoModel or FieldTypes is no longer a composite literal in package ipfix"))
	}
	constInt := func(e ast.Expr) (int64, bool) {
		tv, ok := pkg.TypesInfo.Types[e]
		if !ok || tv.Value == nil || tv.Value.Kind() != constant.Int {
			return 0, false
		}
		v, ok := constant.Int64Val(tv.Value)
		return v, ok
	}
	constStr := func(e ast.Expr) (string, bool) {
		tv, ok := pkg.TypesInfo.Types[e]
		if !ok || tv.Value == nil || tv.Value.Kind() != constant.String {
			return "", false
		}
		return constant.StringVal(tv.Value), true
	}
	// FieldTypes
	fieldTypes := map[string]int64{}
	for _, el := range typesLit.Elts {
		kv, ok := el.(*ast.KeyValueExpr)
		if !ok {
			panic(translateErr("FieldTypes literal: unexpected element"))
		}
		k, ok1 := constStr(kv.Key)
		v, ok2 := constInt(kv.Value)
		if !ok1 || !ok2 {
			panic(translateErr("FieldTypes literal: non-constant entry at " + fc.pos(kv)))
		}
		if _, dup := fieldTypes[k]; dup {
			fc.oblige(st, "ground.fieldtypes", "dup."+k, "false", kv, "duplicate FieldTypes key "+k)
		}
		fieldTypes[k] = v
	}
	// InfoModel literal
	var entries []modelEntry
	seenKey := map[[2]int64]string{}
	for _, el := range modelLit.Elts {
		kv, ok := el.(*ast.KeyValueExpr)
		if !ok {
			panic(translateErr("InfoModel literal: unexpected element"))
		}
		e := modelEntry{pos: fc.pos(kv)}
		kl, ok := kv.Key.(*ast.CompositeLit)
		if !ok || len(kl.Elts) != 2 {
			panic(translateErr("InfoModel literal: key is not ElementKey{pen, id} at " + e.pos))
		}
		getKeyField := func(i int, name string) ast.Expr {
			for _, x := range kl.Elts {
				if kvx, ok := x.(*ast.KeyValueExpr); ok {
					if kvx.Key.(*ast.Ident).Name == name {
						return kvx.Value
					}
				}
			}
			if _, ok := kl.Elts[i].(*ast.KeyValueExpr); ok {
				return nil
			}
			return kl.Elts[i]
		}
		var ok1, ok2 bool
		e.pen, ok1 = constInt(getKeyField(0, "EnterpriseNo"))
		e.id, ok2 = constInt(getKeyField(1, "ElementID"))
		if !ok1 || !ok2 {
			panic(translateErr("InfoModel literal: non-constant key at " + e.pos))
		}
		vl, ok := kv.Value.(*ast.CompositeLit)
		if !ok {
			panic(translateErr("InfoModel literal: value is not a composite literal at " + e.pos))
		}
		order := []string{"FieldID", "Name", "Type"}
		for i, x := range vl.Elts {
			fname := ""
			var val ast.Expr
			if kvx, ok := x.(*ast.KeyValueExpr); ok {
				fname = kvx.Key.(*ast.Ident).Name
				val = kvx.Value
			} else if i < 3 {
				fname, val = order[i], x
			}
			switch fname {
			case "FieldID":
				v, ok := constInt(val)
				if !ok {
					panic(translateErr("InfoModel literal: non-constant FieldID at " + e.pos))
				}
				e.fieldID = v
			case "Name":
				s, ok := constStr(val)
				if !ok {
					panic(translateErr("InfoModel literal: non-constant Name at " + e.pos))
				}
				e.name = s
			case "Type":
				if ix, ok := val.(*ast.IndexExpr); ok {
					if id, ok := ix.X.(*ast.Ident); ok && id.Name == "FieldTypes" {
						if s, ok := constStr(ix.Index); ok {
							e.typeName = s
							e.typeVal, e.typeOK = fieldTypes[s]
						}
					}
				} else if v, ok := constInt(val); ok {
					e.typeVal = v
					e.typeOK = v != 0
					for n, tv := range fieldTypes {
						if tv == v {
							e.typeName = n
						}
					}
				} else {
					panic(translateErr("InfoModel literal: Type expression not understood at " + e.pos))
				}
			}
		}
		k := [2]int64{e.pen, e.id}
		if prev, dup := seenKey[k]; dup {
			fc.oblige(st, "ground.infomodel", fmt.Sprintf("dup.%d.%d", e.pen, e.id), "false", kv, "duplicate key, also at "+prev)
		}
		seenKey[k] = e.pos
		entries = append(entries, e)
	}
	// shipped file, loaded the way LoadExtElements does (spec of the loader applied by the tool)
	file := filepath.Join(w.RepoDir, "scripts", "ipfix.elements")
	raw, err := os.ReadFile(file)
	if err != nil {
		panic(translateErr("cannot read scripts/ipfix.elements: " + err.Error()))
	}
	var ext map[uint32]map[uint16][]string
	if err := yaml.Unmarshal(raw, &ext); err != nil {
		panic(translateErr("scripts/ipfix.elements does not parse: " + err.Error()))
	}
	type fileEntry struct {
		name, typeName string
		typeVal        int64
		typeOK         bool
	}
	fileModel := map[[2]int64]fileEntry{}
	for pen, els := range ext {
		for id, prop := range els {
			if len(prop) > 1 {
				tv, ok := fieldTypes[prop[1]]
				fileModel[[2]int64{int64(pen), int64(id)}] = fileEntry{prop[0], prop[1], tv, ok}
			} else {
				fc.oblige(st, "ground.elementsfile", fmt.Sprintf("short.%d.%d", pen, id), "false", nil, fmt.Sprintf("entry %d/%d of scripts/ipfix.elements has fewer than two properties and is dropped by the loader", pen, id))
			}
		}
	}
	strEq := func(a, b string) string {
		return eq(w.Reg.strConst(a), w.Reg.strConst(b))
	}
	b2s := func(b bool) string { return strconv.FormatBool(b) }
	sort.Slice(entries, func(i, j int) bool {
		if entries[i].pen != entries[j].pen {
			return entries[i].pen < entries[j].pen
		}
		return entries[i].id < entries[j].id
	})
	for _, e := range entries {
		site := fmt.Sprintf("%d.%d", e.pen, e.id)
		node := &ast.Ident{NamePos: token.NoPos}
		_ = node
		// keyed by its own id
		key := fmt.Sprintf("ElementKey{%d, %d}", e.pen, e.id)
		fc.groundTest = fmt.Sprintf("e, ok := InfoModel[%s]\n\tif !ok || int64(e.FieldID) != %d {\n\t\tfmt.Println(\"VRF-RESULT VIOLATED FieldID\", e.FieldID)\n\t} else {\n\t\tfmt.Println(\"VRF-RESULT HOLDS\")\n\t}", key, e.id)
		fc.obligeAt(st, "ground.infomodel", site+".key", eq(intLit(e.fieldID), intLit(e.id)), e.pos, fmt.Sprintf("built-in element %s: FieldID %d equals its key id %d", e.name, e.fieldID, e.id))
		// recognised type
		fc.groundTest = fmt.Sprintf("e, ok := InfoModel[%s]\n\tif !ok || e.Type == Unknown {\n\t\tfmt.Println(\"VRF-RESULT VIOLATED built-in element has type Unknown:\", e.Name)\n\t} else {\n\t\tfmt.Println(\"VRF-RESULT HOLDS\")\n\t}", key)
		fc.obligeAt(st, "ground.infomodel", site+".type", b2s(e.typeOK), e.pos, fmt.Sprintf("built-in element %s: type name %q is a key of FieldTypes", e.name, e.typeName))
		// same entry in the shipped file
		fe, ok := fileModel[[2]int64{e.pen, e.id}]
		goal := "false"
		if ok {
			goal = and(strEq(e.name, fe.name), eq(intLit(e.typeVal), intLit(fe.typeVal)), strEq(e.typeName, fe.typeName))
		}
		fc.groundTest = fmt.Sprintf("builtin := InfoModel[%s]\n\tif err := LoadExtElements(\"../scripts\"); err != nil {\n\t\tt.Fatal(err)\n\t}\n\tfromFile, ok := InfoModel[%s]\n\tif !ok || fromFile != builtin {\n\t\tfmt.Println(\"VRF-RESULT VIOLATED built-in\", builtin, \"file\", fromFile, ok)\n\t} else {\n\t\tfmt.Println(\"VRF-RESULT HOLDS\")\n\t}", key, key)
		fc.obligeAt(st, "ground.infomodel", site+".file", goal, e.pos, fmt.Sprintf("built-in element %d/%d (%s, %s) has the same name and type in scripts/ipfix.elements", e.pen, e.id, e.name, e.typeName))
	}
	var fkeys [][2]int64
	for k := range fileModel {
		fkeys = append(fkeys, k)
	}
	sort.Slice(fkeys, func(i, j int) bool {
		if fkeys[i][0] != fkeys[j][0] {
			return fkeys[i][0] < fkeys[j][0]
		}
		return fkeys[i][1] < fkeys[j][1]
	})
	for _, k := range fkeys {
		fe := fileModel[k]
		site := fmt.Sprintf("%d.%d", k[0], k[1])
		_, inBuiltin := seenKey[k]
		key := fmt.Sprintf("ElementKey{%d, %d}", k[0], k[1])
		fc.groundTest = fmt.Sprintf("_, inBuiltin := InfoModel[%s]\n\tif err := LoadExtElements(\"../scripts\"); err != nil {\n\t\tt.Fatal(err)\n\t}\n\te, ok := InfoModel[%s]\n\tif !ok || !inBuiltin || e.Type == Unknown {\n\t\tfmt.Println(\"VRF-RESULT VIOLATED file element:\", e, \"loaded\", ok, \"in built-in table\", inBuiltin)\n\t} else {\n\t\tfmt.Println(\"VRF-RESULT HOLDS\")\n\t}", key, key)
		fc.obligeAt(st, "ground.elementsfile", site+".builtin", b2s(inBuiltin), "scripts/ipfix.elements", fmt.Sprintf("file element %d/%d (%s) exists in the built-in table", k[0], k[1], fe.name))
		fc.obligeAt(st, "ground.elementsfile", site+".type", b2s(fe.typeOK), "scripts/ipfix.elements", fmt.Sprintf("file element %d/%d (%s): type name %q is a key of FieldTypes", k[0], k[1], fe.name, fe.typeName))
	}
	// the two tables are written nowhere else: InfoModel only by its declaration and by LoadExtElements, FieldTypes
	// only by its declaration (an init function or another package adding entries would make the literal above stale)
	fc.groundTest = ""
	for _, tbl := range []string{"InfoModel", "FieldTypes"} {
		tv, _ := pkg.Types.Scope().Lookup(tbl).(*types.Var)
		if tv == nil {
			continue
		}
		where := ""
		for _, p := range w.Pkgs {
			for _, f := range p.Syntax {
				for _, d := range f.Decls {
					fd, ok := d.(*ast.FuncDecl)
					if !ok || fd.Body == nil {
						continue
					}
					if tbl == "InfoModel" && p == pkg && fd.Name.Name == "LoadExtElements" && fd.Recv == nil {
						continue
					}
					isTbl := func(e ast.Expr) bool {
						for {
							switch x := e.(type) {
							case *ast.ParenExpr:
								e = x.X
								continue
							case *ast.IndexExpr:
								e = x.X
								continue
							case *ast.Ident:
								return p.TypesInfo.Uses[x] == tv
							case *ast.SelectorExpr:
								return p.TypesInfo.Uses[x.Sel] == tv
							}
							return false
						}
					}
					ast.Inspect(fd.Body, func(n ast.Node) bool {
						switch x := n.(type) {
						case *ast.AssignStmt:
							for _, l := range x.Lhs {
								if isTbl(l) {
									where = shortPath(w.Fset.Position(x.Pos()).String())
								}
							}
						case *ast.CallExpr:
							if id, ok := x.Fun.(*ast.Ident); ok && id.Name == "delete" && len(x.Args) > 0 && isTbl(x.Args[0]) {
								where = shortPath(w.Fset.Position(x.Pos()).String())
							}
						case *ast.UnaryExpr:
							if x.Op == token.AND && isTbl(x.X) {
								where = shortPath(w.Fset.Position(x.Pos()).String())
							}
						}
						return true
					})
				}
			}
		}
		goal, text := "true", "ipfix."+tbl+" is written only by its declaration"
		if tbl == "InfoModel" {
			text += " and by LoadExtElements"
		}
		if where != "" {
			goal = "false"
			text += "; written at " + where
		}
		fc.obligeAt(st, "ground.infomodel", "onlywriter."+tbl, goal, "ipfix/rfc5102_model.go", text)
	}
	fc.obligeAt(st, "ground.infomodel", "count", eq(strconv.Itoa(len(entries)), strconv.Itoa(len(fileModel))), "ipfix/rfc5102_model.go", fmt.Sprintf("built-in table (%d entries) and shipped file (%d entries) have the same size", len(entries), len(fileModel)))
	return fc
}

// obligeAt is oblige with an explicit position string.
func (fc *FuncCtx) obligeAt(st *State, kind, site, goal, pos, text string) {
	n := len(fc.obls)
	fc.oblige(st, kind, site, goal, nil, text)
	if len(fc.obls) > n {
		fc.obls[len(fc.obls)-1].Pos = pos
		fc.obls[len(fc.obls)-1].GroundTest = fc.groundTest
	}
}

// groundJSONShape (C05, sFlow path): encoding/json.Marshal either returns valid JSON or an error
// (trusted); it fails for channel, function and complex values and for maps with unsupported key
// types. Every struct type of packages sflow and packet (the values reachable from *SFDatagram,
// including those stored in interface-typed fields) must therefore consist of encodable types.
func (w *World) groundJSONShape() (fc *FuncCtx) {
	pkg := w.Pkgs[repoModule+"/sflow"]
	fc = &FuncCtx{w: w, pkg: pkg, info: pkg.TypesInfo, key: repoModule + "/sflow.jsonshape", counter: map[string]int{}, allVars: map[*types.Var]bool{}, usedContracts: map[string]bool{}, sideSeen: map[string]bool{},
		contract: &Contract{Loops: map[int]*LoopContract{}, Opts: map[string]string{}, Pkg: pkg}}
	st := &State{guard: "true", vars: map[types.Object]Term{}, alias: map[types.Object]ast.Expr{}, ghost: map[string]Term{}, held: map[string]string{}}
	var encodable func(t types.Type, depth int) (bool, string)
	encodable = func(t types.Type, depth int) (bool, string) {
		if depth > 8 {
			return true, ""
		}
		switch u := t.Underlying().(type) {
		case *types.Basic:
			if u.Info()&types.IsComplex != 0 || u.Kind() == types.UnsafePointer {
				return false, "complex or unsafe value"
			}
			return true, ""
		case *types.Chan:
			return false, "channel"
		case *types.Signature:
			return false, "function value"
		case *types.Pointer:
			return encodable(u.Elem(), depth+1)
		case *types.Slice:
			return encodable(u.Elem(), depth+1)
		case *types.Array:
			return encodable(u.Elem(), depth+1)
		case *types.Map:
			kb, ok := u.Key().Underlying().(*types.Basic)
			if !ok || kb.Info()&(types.IsString|types.IsInteger) == 0 {
				// net.IP etc. implement TextMarshaler; anything else is rejected by encoding/json
				return false, "map key type " + types.TypeString(u.Key(), nil)
			}
			return encodable(u.Elem(), depth+1)
		case *types.Struct:
			for i := 0; i < u.NumFields(); i++ {
				f := u.Field(i)
				if !f.Exported() {
					continue // not encoded
				}
				if ok, why := encodable(f.Type(), depth+1); !ok {
					return false, "field " + f.Name() + ": " + why
				}
			}
			return true, ""
		case *types.Interface:
			return true, "" // dynamic types are the struct types checked below
		}
		return true, ""
	}
	for _, path := range []string{repoModule + "/sflow", repoModule + "/packet"} {
		p := w.Pkgs[path]
		names := p.Types.Scope().Names()
		sort.Strings(names)
		for _, n := range names {
			tn, ok := p.Types.Scope().Lookup(n).(*types.TypeName)
			if !ok {
				continue
			}
			if _, isStruct := tn.Type().Underlying().(*types.Struct); !isStruct {
				continue
			}
			ok2, why := encodable(tn.Type(), 0)
			goal := "true"
			if !ok2 {
				goal = "false"
			}
			fc.obligeAt(st, "ground.jsonshape", p.Name+"."+n, goal, shortPath(w.Fset.Position(tn.Pos()).String()), "every exported field of "+p.Name+"."+n+" has a type encoding/json can encode "+why)
		}
	}
	return fc
}

// groundGuardedAccess (C10, completeness of the lock proof): every selector that resolves to a
// guarded field anywhere in the module's non-test code must lie in a function that is verified
// under the lock contracts of this run.
func (w *World) groundGuardedAccess(verified map[string]bool) (fc *FuncCtx) {
	pkg := w.Pkgs[repoModule+"/ipfix"]
	fc = &FuncCtx{w: w, pkg: pkg, info: pkg.TypesInfo, key: repoModule + "/guarded", counter: map[string]int{}, allVars: map[*types.Var]bool{}, usedContracts: map[string]bool{}, sideSeen: map[string]bool{},
		contract: &Contract{Loops: map[int]*LoopContract{}, Opts: map[string]string{}, Pkg: pkg}}
	st := &State{guard: "true", vars: map[types.Object]Term{}, alias: map[types.Object]ast.Expr{}, ghost: map[string]Term{}, held: map[string]string{}}
	var paths []string
	for p := range w.Pkgs {
		paths = append(paths, p)
	}
	sort.Strings(paths)
	for _, path := range paths {
		p := w.Pkgs[path]
		for _, f := range p.Syntax {
			for _, d := range f.Decls {
				fd, ok := d.(*ast.FuncDecl)
				if !ok || fd.Body == nil {
					continue
				}
				obj, _ := p.TypesInfo.Defs[fd.Name].(*types.Func)
				if obj == nil {
					continue
				}
				n := 0
				ast.Inspect(fd.Body, func(nd ast.Node) bool {
					sel, ok := nd.(*ast.SelectorExpr)
					if !ok {
						return true
					}
					s := p.TypesInfo.Selections[sel]
					if s == nil || s.Kind() != types.FieldVal {
						return true
					}
					recv := s.Recv()
					if pt, ok := recv.Underlying().(*types.Pointer); ok {
						recv = pt.Elem()
					}
					if w.Guarded[qualName(recv)+"."+sel.Sel.Name] {
						n++
					}
					return true
				})
				// composite literals initialise a fresh, unpublished shard: not an access
				if n == 0 {
					continue
				}
				key := obj.FullName()
				goal := "false"
				if verified[key] || w.verifiedInPlace(key, verified, map[string]bool{}) {
					goal = "true"
				}
				if w.testOnlyExempt(key, map[string]bool{}) {
					goal = "true"
				}
				fc.obligeAt(st, "ground.guarded", shortKey(key), goal, shortPath(w.Fset.Position(fd.Pos()).String()), fmt.Sprintf("%s touches a lock-protected template map %d time(s): it must be verified under the lock contracts", shortKey(key), n))
			}
		}
	}
	return fc
}

// groundCacheTypes (C11, round trip): encoding/json reproduces a value exactly when its type is
// built from exported integer/bool/string fields, slices, arrays, pointers, structs and maps with
// integer or string keys; interface-typed or unexported data fields would be lost or altered.
func (w *World) groundCacheTypes() (fc *FuncCtx) {
	pkg := w.Pkgs[repoModule+"/ipfix"]
	fc = &FuncCtx{w: w, pkg: pkg, info: pkg.TypesInfo, key: repoModule + "/cachetypes", counter: map[string]int{}, allVars: map[*types.Var]bool{}, usedContracts: map[string]bool{}, sideSeen: map[string]bool{},
		contract: &Contract{Loops: map[int]*LoopContract{}, Opts: map[string]string{}, Pkg: pkg}}
	st := &State{guard: "true", vars: map[types.Object]Term{}, alias: map[types.Object]ast.Expr{}, ghost: map[string]Term{}, held: map[string]string{}}
	var check func(t types.Type, path string, depth int, p *types.Package)
	seen := map[string]bool{}
	check = func(t types.Type, path string, depth int, p *types.Package) {
		if depth > 10 {
			return
		}
		// a repository type with its own (un)marshalling methods leaves the library's default, symmetric encoding:
		// the round trip is then a property of those methods (and of whether encoding/json finds them: pointer
		// receivers are not used for map and interface elements), which these obligations do not decide
		if n, isNamed := t.(*types.Named); isNamed && n.Obj().Pkg() != nil && strings.HasPrefix(n.Obj().Pkg().Path(), repoModule) {
			for _, mname := range []string{"MarshalJSON", "UnmarshalJSON", "MarshalText", "UnmarshalText"} {
				for _, recv := range []types.Type{n, types.NewPointer(n)} {
					if obj, _, _ := types.LookupFieldOrMethod(recv, true, n.Obj().Pkg(), mname); obj != nil {
						if _, isFn := obj.(*types.Func); isFn && !seen["m:"+n.Obj().Name()+"."+mname] {
							seen["m:"+n.Obj().Name()+"."+mname] = true
							fc.obligeAt(st, "ground.cachetypes", path+"."+mname, "false", "", path+": type "+n.Obj().Name()+" defines "+mname+": the saved form is no longer the library's default encoding, and save and load are only inverse if these methods are (not decided)")
						}
					}
				}
			}
		}
		switch u := t.Underlying().(type) {
		case *types.Basic:
			ok := u.Info()&(types.IsInteger|types.IsBoolean|types.IsString) != 0
			goal := "true"
			if !ok {
				goal = "false"
			}
			if !ok {
				fc.obligeAt(st, "ground.cachetypes", path, goal, "", path+": basic type "+u.Name()+" does not round-trip exactly through JSON")
			}
		case *types.Pointer:
			check(u.Elem(), path, depth+1, p)
		case *types.Slice:
			check(u.Elem(), path+"[]", depth+1, p)
		case *types.Array:
			check(u.Elem(), path+"[]", depth+1, p)
		case *types.Map:
			kb, ok := u.Key().Underlying().(*types.Basic)
			good := ok && kb.Info()&(types.IsInteger|types.IsString) != 0
			goal := "true"
			if !good {
				goal = "false"
			}
			fc.obligeAt(st, "ground.cachetypes", path+".key", goal, "", path+": map key type "+types.TypeString(u.Key(), nil)+" is an integer or string (JSON object keys round-trip)")
			check(u.Elem(), path+"{}", depth+1, p)
		case *types.Struct:
			k := types.TypeString(t, nil)
			if seen[k] {
				return
			}
			seen[k] = true
			for i := 0; i < u.NumFields(); i++ {
				f := u.Field(i)
				fp := path + "." + f.Name()
				if f.Embedded() && types.TypeString(f.Type(), nil) == "sync.RWMutex" {
					fc.obligeAt(st, "ground.cachetypes", fp, "true", "", fp+": embedded mutex carries no data (it has no exported fields, nothing is encoded)")
					continue
				}
				goal := "true"
				if !f.Exported() {
					goal = "false"
				}
				fc.obligeAt(st, "ground.cachetypes", fp, goal, "", fp+": field is exported, so encoding/json saves and restores it")
				check(f.Type(), fp, depth+1, p)
			}
		case *types.Interface:
			fc.obligeAt(st, "ground.cachetypes", path, "false", "", path+": interface-typed data loses its dynamic type in JSON")
		default:
			fc.obligeAt(st, "ground.cachetypes", path, "false", "", path+": type "+types.TypeString(t, nil)+" does not round-trip through JSON")
		}
	}
	for _, path := range []string{repoModule + "/ipfix", repoModule + "/netflow/v9"} {
		p := w.Pkgs[path]
		tn, ok := p.Types.Scope().Lookup("memCacheDisk").(*types.TypeName)
		if !ok {
			fc.obligeAt(st, "ground.cachetypes", p.Name+".memCacheDisk", "false", "", "type memCacheDisk not found in package "+p.Name)
			continue
		}
		seen = map[string]bool{}
		check(tn.Type(), p.Name+".memCacheDisk", 0, p.Types)
	}
	return fc
}

// groundFNVKey (C04): the shard maps are keyed by the 32-bit FNV-1 hash of addr ++ id only. The
// abstract view "one entry per (address, id)" needs that key to be injective. The lemma is stated
// in bit-vector logic with the definition of FNV-1 and decided by the solver; a model is a pair
// of distinct (address, id) that share a map key, replayed on the real cache.
func (w *World) groundFNVKey() (fc *FuncCtx) {
	pkg := w.Pkgs[repoModule+"/ipfix"]
	fc = &FuncCtx{w: w, pkg: pkg, info: pkg.TypesInfo, key: repoModule + "/ipfix.cachekey", counter: map[string]int{}, allVars: map[*types.Var]bool{}, usedContracts: map[string]bool{}, sideSeen: map[string]bool{},
		contract: &Contract{Loops: map[int]*LoopContract{}, Opts: map[string]string{}, Pkg: pkg}}
	for _, n := range []int{4, 16} {
		name := fmt.Sprintf("ipfix.cachekey#lemma.keyInjective.addr%d", n)
		o := &Obligation{Name: name, Func: "ipfix.cachekey", Kind: "lemma", Pos: "ipfix/memcache.go (getShard)", fc: fc,
			Text: fmt.Sprintf("distinct (exporter address of %d octets%s, template id) pairs have distinct shard-map keys (FNV-1 32 of address++id)", n, map[int]string{4: "", 16: " in IPv4-mapped form"}[n])}
		o.RawQuery = fnvQuery(n)
		o.RawVars = n + 2
		fc.obls = append(fc.obls, o)
	}
	return fc
}

func fnvQuery(n int) string {
	var b strings.Builder
	b.WriteString("(set-option :produce-models true)\n(set-logic QF_BV)\n")
	hash := func(prefix string) string {
		h := "#x811c9dc5"
		for i := 0; i < n+2; i++ {
			v := fmt.Sprintf("%s%d", prefix, i)
			b.WriteString("(declare-const " + v + " (_ BitVec 8))\n")
			h = "(bvxor (bvmul " + h + " #x01000193) ((_ zero_extend 24) " + v + "))"
		}
		return h
	}
	h1 := hash("a")
	h2 := hash("b")
	var diff []string
	for i := 0; i < n+2; i++ {
		diff = append(diff, fmt.Sprintf("(not (= a%d b%d))", i, i))
	}
	if n == 16 {
		// IPv4-mapped form ::ffff:a.b.c.d, the form net.ParseIP and udp6 sockets produce for IPv4 exporters
		for _, p := range []string{"a", "b"} {
			for i := 0; i < 10; i++ {
				b.WriteString(fmt.Sprintf("(assert (= %s%d #x00))\n", p, i))
			}
			b.WriteString(fmt.Sprintf("(assert (= %s10 #xff))\n(assert (= %s11 #xff))\n", p, p))
		}
	}
	b.WriteString("(assert (or " + strings.Join(diff, " ") + "))\n")
	b.WriteString("(assert (= " + h1 + " " + h2 + "))\n(check-sat)\n")
	return b.String()
}

// testOnlyExempt: the function is declared `opt testonly` and no non-test code refers to it, or it has no
// contract and is called only by such functions.
func (w *World) testOnlyExempt(key string, seen map[string]bool) bool {
	if seen[key] {
		return false
	}
	seen[key] = true
	obj := w.FuncObj[key]
	if obj == nil {
		return false
	}
	if c := w.Contracts[key]; c != nil {
		if c.Opts["testonly"] == "" {
			return false
		}
		for _, q := range w.Pkgs {
			for _, o := range q.TypesInfo.Uses {
				if o == obj {
					return false
				}
			}
		}
		return true
	}
	if !w.isCalledHelper(key) {
		return false
	}
	for _, c := range w.callers[key] {
		if !w.testOnlyExempt(c, seen) {
			return false
		}
	}
	return len(w.callers[key]) > 0
}

// guardedTouchers: keys of the functions (non-test code) that select a guarded field.
func (w *World) guardedTouchers() []string {
	var out []string
	var paths []string
	for p := range w.Pkgs {
		paths = append(paths, p)
	}
	sort.Strings(paths)
	for _, path := range paths {
		p := w.Pkgs[path]
		for _, f := range p.Syntax {
			for _, d := range f.Decls {
				fd, ok := d.(*ast.FuncDecl)
				if !ok || fd.Body == nil {
					continue
				}
				obj, _ := p.TypesInfo.Defs[fd.Name].(*types.Func)
				if obj == nil {
					continue
				}
				touches := false
				ast.Inspect(fd.Body, func(nd ast.Node) bool {
					sel, ok := nd.(*ast.SelectorExpr)
					if !ok {
						return true
					}
					s := p.TypesInfo.Selections[sel]
					if s == nil || s.Kind() != types.FieldVal {
						return true
					}
					recv := s.Recv()
					if pt, ok := recv.Underlying().(*types.Pointer); ok {
						recv = pt.Elem()
					}
					if w.Guarded[qualName(recv)+"."+sel.Sel.Name] {
						touches = true
					}
					return true
				})
				if touches {
					out = append(out, obj.FullName())
				}
			}
		}
	}
	return out
}
