package main

// Intrinsics: library functions whose behaviour depends on the dynamic type of an argument and
// therefore cannot be given a first-order contract in the contract language.
//
//   binread <stream-arg> <data-arg>   encoding/binary.Read(r, BigEndian, data) and wrappers of it:
//     data must be the address of an integer variable or of a []byte variable; the stream is the
//     ghost byte stream (D, Pos) behind io.Reader / io.ReadSeeker.

import (
	"fmt"
	"go/ast"
	"go/token"
	"go/types"
	"strconv"
	"strings"
)

func (fc *FuncCtx) evalIntrinsic(st *State, call *ast.CallExpr, fn *types.Func, spec []string) []Term {
	switch spec[0] {
	case "binread":
		si, _ := strconv.Atoi(spec[1])
		di, _ := strconv.Atoi(spec[2])
		for i, a := range call.Args {
			if i != si && i != di {
				fc.eval(st, a)
			}
		}
		return []Term{fc.binRead(st, call, call.Args[si], call.Args[di])}
	}
	if spec[0] == "flagvar" {
		return fc.flagVar(st, call, fn)
	}
	if spec[0] == "flagparse" {
		return fc.flagParse(st, call)
	}
	if strings.HasPrefix(spec[0], "js") {
		return fc.jsonWrite(st, call, fn, spec[0])
	}
	if spec[0] == "havocptr" {
		// the callee may write anything through the pointer argument (reflection-based decoders)
		pi, _ := strconv.Atoi(spec[1])
		sig := fn.Type().(*types.Signature)
		for i, a := range call.Args {
			if i == pi {
				continue
			}
			fc.eval(st, a)
		}
		de := fc.resolveAlias(st, call.Args[pi])
		if ue, ok := de.(*ast.UnaryExpr); ok && ue.Op == token.AND {
			cur := fc.eval(st, ue.X)
			hv := fc.fresh("havoc_"+fn.Name(), cur.T)
			fc.havocSources = append(fc.havocSources, hv)
			fc.assign(st, ue.X, hv)
		} else if pt, ok := fc.typeOf(de).Underlying().(*types.Pointer); ok {
			// a pointer variable: whatever it points to may be rewritten
			pv := fc.eval(st, de)
			fc.oblige(st, "panic.nilptr", "", not(fc.reg().isNil(pv)), call, "decoding into possibly nil pointer "+exprStr(de))
			old := fc.reg().deref(pv)
			hv := fc.fresh("havoc_"+fn.Name(), pt.Elem())
			fc.havocSources = append(fc.havocSources, hv)
			star := &ast.StarExpr{X: de}
			fc.info.Types[star] = types.TypeAndValue{Type: pt.Elem()}
			fc.assign(st, star, hv)
			fc.fileViewFacts(st, fn, pt.Elem(), old, hv, call)
		} else {
			fc.fail(call, "%s: pointer argument must be the address of a variable", fn.Name())
		}
		var rs []Term
		for i := 0; i < sig.Results().Len(); i++ {
			rs = append(rs, fc.fresh("r_"+fn.Name(), sig.Results().At(i).Type()))
		}
		if n := len(rs); n > 0 && types.TypeString(rs[n-1].T, nil) == "error" {
			// ghost <Callee>_err: the error of the latest decoding call (a target filled by a failed decode must not be used)
			st.ghost[fn.Name()+"_err"] = rs[n-1]
		}
		return rs
	}
	fc.fail(call, "unknown intrinsic %s", spec[0])
	return nil
}

// resolveAlias follows syntactic aliases of identifiers (unrolled range variables).
func (fc *FuncCtx) resolveAlias(st *State, e ast.Expr) ast.Expr {
	for {
		e = unparen(e)
		// element of a literal slice at a known position (a counting loop over the literal is unrolled)
		if ix, ok := e.(*ast.IndexExpr); ok {
			if xid, ok := unparen(ix.X).(*ast.Ident); ok {
				if elts := fc.litSlice(xid); elts != nil {
					saved := fc.quiet
					fc.quiet = true
					k := fc.eval(st, ix.Index)
					fc.quiet = saved
					if n, err := strconv.Atoi(k.S); err == nil && n >= 0 && n < len(elts) {
						e = elts[n]
						continue
					}
				}
			}
			return e
		}
		id, ok := e.(*ast.Ident)
		if !ok {
			return e
		}
		if a, ok := st.exprAlias[fc.info.ObjectOf(id)]; ok {
			e = a
			continue
		}
		return e
	}
}

func (fc *FuncCtx) binRead(st *State, call *ast.CallExpr, streamExpr, dataExpr ast.Expr) Term {
	sp := fc.eval(st, streamExpr)
	stream := fc.derefChecked(st, Term{S: sp.S, T: fc.streamPtrType()}, call, "stream "+exprStr(streamExpr))
	D, _ := fc.reg().fieldOf(stream, "D")
	pos, _ := fc.reg().fieldOf(stream, "Pos")
	_, darr, doff, dlen, _ := fc.reg().sliceParts(D)

	de := fc.resolveAlias(st, dataExpr)
	ue, ok := de.(*ast.UnaryExpr)
	if !ok || ue.Op != token.AND {
		fc.fail(call, "binary.Read target must be the address of a variable (got %s)", exprStr(de))
	}
	target := ue.X
	tt := fc.typeOf(target)
	cur := fc.eval(st, target)
	errT := fc.fresh("binread_err", types.Universe.Lookup("error").Type())
	avail := "(- " + dlen + " " + pos.S + ")"
	var n string
	var newVal Term
	byteAt := func(k string) string { return "(select " + darr + " (+ " + doff + " " + pos.S + " " + k + "))" }
	if lo, _, bits, signed, ok := intRange(tt); ok {
		_ = lo
		nb := bits / 8
		n = strconv.Itoa(nb)
		v := "0"
		for k := 0; k < nb; k++ {
			b := byteAt(strconv.Itoa(k))
			fc.assume(st, "(and (<= 0 "+b+") (< "+b+" 256))")
			if k == 0 {
				v = b
			} else {
				v = "(+ (* " + v + " 256) " + b + ")"
			}
		}
		if signed {
			v = wrapInt(v, tt, true)
		}
		newVal = Term{S: v, T: tt}
	} else if sl, ok := tt.Underlying().(*types.Slice); ok && isInteger(sl.Elem()) {
		if _, _, bits, _, _ := intRange(sl.Elem()); bits != 8 {
			fc.fail(call, "binary.Read into a slice of non-byte integers is not modelled")
		}
		_, tarr, toff, tlen, tcap := fc.reg().sliceParts(cur)
		n = tlen
		na := fc.fresh("binread_bytes", types.NewArray(sl.Elem(), 0))
		q := "q_br"
		fc.assume(st, "(forall (("+q+" Int)) (= (select "+na.S+" "+q+") (ite (and (<= "+toff+" "+q+") (< "+q+" (+ "+toff+" "+tlen+"))) (select "+darr+" (+ "+doff+" "+pos.S+" (- "+q+" "+toff+"))) (select "+tarr+" "+q+"))))")
		newVal = fc.reg().mkSlice(tt, na.S, toff, tlen, tcap)
	} else {
		fc.fail(call, "binary.Read target of type %s is not modelled", types.TypeString(tt, nil))
	}
	okc := fc.compactBool("(and (>= " + pos.S + " 0) (<= " + n + " " + avail + "))")
	fc.assume(st, eq(fc.reg().isNil(errT), okc))
	// value
	fc.assign(st, target, Term{S: ite(okc, newVal.S, cur.S), T: tt})
	// position: all-or-error; a short read consumes what is left
	npos := ite(okc, "(+ "+pos.S+" "+n+")", ite("(> "+avail+" 0)", dlen, pos.S))
	ns := fc.reg().withField(stream, "Pos", npos)
	saved := fc.quiet
	fc.quiet = true
	if fc.addressable(streamExpr) {
		fc.assign(st, streamExpr, Term{S: fc.reg().ref(ns, fc.streamPtrType()).S, T: sp.T})
	}
	fc.quiet = saved
	return errT
}

func (fc *FuncCtx) streamPtrType() types.Type {
	return types.NewPointer(fc.w.GhostPkg.Scope().Lookup("Stream").Type())
}

// checkIntrinsicWrapper: the body must be `return binary.Read(<stream param>, binary.BigEndian, <data param>)`.
func (w *World) checkIntrinsicWrapper(key string, spec []string) string {
	decl := w.FuncDecls[key]
	pkg := w.FuncPkg[key]
	if decl == nil || len(decl.Body.List) != 1 {
		return "intrinsic wrapper has more than one statement"
	}
	ret, ok := decl.Body.List[0].(*ast.ReturnStmt)
	if !ok || len(ret.Results) != 1 {
		return "intrinsic wrapper is not a single return"
	}
	call, ok := ret.Results[0].(*ast.CallExpr)
	if !ok || len(call.Args) != 3 {
		return "intrinsic wrapper does not call binary.Read"
	}
	sel, ok := call.Fun.(*ast.SelectorExpr)
	if !ok {
		return "intrinsic wrapper does not call binary.Read"
	}
	fn, ok := pkg.TypesInfo.ObjectOf(sel.Sel).(*types.Func)
	if !ok || fn.FullName() != "encoding/binary.Read" {
		return "intrinsic wrapper does not call encoding/binary.Read"
	}
	si, _ := strconv.Atoi(spec[1])
	di, _ := strconv.Atoi(spec[2])
	sig := w.FuncObj[key].Type().(*types.Signature)
	isParam := func(e ast.Expr, i int) bool {
		id, ok := e.(*ast.Ident)
		return ok && pkg.TypesInfo.ObjectOf(id) == sig.Params().At(i)
	}
	if !isParam(call.Args[0], si) || !isParam(call.Args[2], di) {
		return "intrinsic wrapper passes other arguments than its own parameters"
	}
	if o, ok := call.Args[1].(*ast.SelectorExpr); !ok || o.Sel.Name != "BigEndian" {
		return "intrinsic wrapper does not use binary.BigEndian"
	}
	return ""
}

// fileViewFacts: yaml.Unmarshal into vflow.Options is the configuration-file source of C17. Its assumed semantics:
// a setting whose yaml key is present in the file (fileHas) takes the file's value (fileB/fileI/fileS), a setting
// whose key is absent keeps its value. Fields without a scalar kind or yaml tag stay unknown.
func (fc *FuncCtx) fileViewFacts(st *State, fn *types.Func, elem types.Type, old, now Term, n ast.Node) {
	if fn.Pkg() == nil || fn.Pkg().Path() != "gopkg.in/yaml.v2" || fn.Name() != "Unmarshal" {
		return
	}
	named, ok := elem.(*types.Named)
	if !ok || named.Obj().Name() != "Options" || named.Obj().Pkg() == nil || named.Obj().Pkg().Path() != repoModule+"/vflow" {
		return
	}
	fields, msg := fc.w.optionFields()
	if msg != "" {
		fc.fail(n, "configuration-file view: %s", msg)
	}
	if fc.w.Uninterps["fileHas"] == nil {
		return
	}
	fc.usedContracts["assumed: yaml.Unmarshal into vflow.Options sets exactly the settings whose keys are present in the file"] = true
	for _, f := range fields {
		if f.tag == "" {
			continue
		}
		e, err := parseCExpr(fmt.Sprintf("n.%s == (fileHas(%q) ? file%s(%q) : o.%s)", f.name, f.tag, f.kind, f.tag, f.name))
		if err != nil {
			continue
		}
		env := fc.w.newEnv(fc.pkg)
		env.vars["n"] = now
		env.vars["o"] = old
		fc.assume(st, env.eval(e).S)
	}
}
