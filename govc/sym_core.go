package main

// Core of the symbolic executor: function context, states, obligations.

import (
	"fmt"
	"go/ast"
	"go/token"
	"go/types"
	"sort"
	"strings"

	"golang.org/x/tools/go/packages"
)

type Obligation struct {
	Name                                string // <func>#<kind>.<ordinal>[@site]
	Func                                string
	Kind                                string
	Goal                                string
	Guard                               string
	Facts                               []string // snapshot of facts at this point
	Decls                               []string // snapshot length marker handled via fc
	NDecl                               int
	NFact                               int
	Pos                                 string
	Text                                string // human-readable
	Cover                               bool   // must be SAT
	Inputs                              []InputSym
	Outs                                []InputSym
	RawQuery                            string // complete SMT-LIB text (bit-vector lemmas); unsat = lemma holds
	RawVars                             int
	BoundedOut, BoundedTest, BoundedCmd string
	GroundTest                          string // Go statements that print VRF-RESULT VIOLATED when the real package shows the violation
	fc                                  *FuncCtx
	// results
	Status  string // unsat sat unknown timeout error
	Solver  string
	TimeMs  int64
	Model   map[string]string
	RawOut  string
	Trivial bool
}

type InputSym struct {
	Name string
	Term Term
}

type State struct {
	guard      string
	vars       map[types.Object]Term
	alias      map[types.Object]ast.Expr // local pointer alias -> lvalue expression denoting the pointee's owner pointer
	ghost      map[string]Term           // contract-level ghost variables
	dead       bool
	held       map[string]string         // lock state: path -> "R"/"W" terms are static strings here
	exprAlias  map[types.Object]ast.Expr // unrolled range variable -> element expression
	pendingKey string                    // JSON: the literal key whose value is written next
	regions    map[string]region         // ownership: location -> region
	released   map[string]bool           // regions returned to a pool or handed to another goroutine
	flagRegs   []flagReg                 // package flag: registered variables
}

func (s *State) clone() *State {
	n := &State{flagRegs: s.flagRegs, pendingKey: s.pendingKey, guard: s.guard, vars: make(map[types.Object]Term, len(s.vars)), alias: make(map[types.Object]ast.Expr, len(s.alias)), ghost: make(map[string]Term, len(s.ghost)), dead: s.dead, held: map[string]string{}, exprAlias: map[types.Object]ast.Expr{}}
	for k, v := range s.exprAlias {
		n.exprAlias[k] = v
	}
	n.regions = map[string]region{}
	for k, v := range s.regions {
		n.regions[k] = v
	}
	n.released = map[string]bool{}
	for k, v := range s.released {
		n.released[k] = v
	}
	for k, v := range s.vars {
		n.vars[k] = v
	}
	for k, v := range s.alias {
		n.alias[k] = v
	}
	for k, v := range s.ghost {
		n.ghost[k] = v
	}
	for k, v := range s.held {
		n.held[k] = v
	}
	return n
}

type FuncCtx struct {
	w             *World
	pkg           *packages.Package
	info          *types.Info
	key           string
	decl          *ast.FuncDecl
	obj           *types.Func
	contract      *Contract
	decls         []string // declare-const lines
	facts         []string
	obls          []*Obligation
	counter       map[string]int
	nfresh        int
	oldState      *State // entry state
	returns       []*State
	retVals       [][]Term
	resultVars    []*types.Var
	loopOrd       int
	inputs        []InputSym
	breakTargets  []*jumpTarget
	translateFail string
	namedResults  bool
	deferred      []ast.Stmt
	selfCheck     bool
	quiet         bool
	allVars       map[*types.Var]bool
	oldEnv        *CEnv
	paramVars     []*types.Var
	paramNames    []string
	rnames        []string
	retOrd        int
	curOuts       []InputSym
	usedContracts map[string]bool
	byteSlices    []byteLeaf
	groundTest    string
	goMode        bool
	nregion       int
	sideSeen      map[string]bool
	havocSources  []Term
	inlineStack   []string // repository functions without a contract being executed in place
	notes         []string
	inNonBlocking bool        // executing the communication of a select that has a default clause
	loopFrames    []loopFrame // contracted loops whose body is being executed (for the leave clauses)
	leaveSeen     map[*Clause]bool // leave clause -> evaluated at some return
	loopUsed      map[*LoopContract]bool
	codeSigs      map[string]int // loop headers that occur in the function's source
	loopSigs      map[int]string // contract ordinal -> header of the loop it was applied to (for govc -gen-names)
	autoLoops     int
	defs          map[string]string // named terms of this function (name -> definition)
	pendingAlias  []pendingAlias    // set by the last call whose contract has `aliases` clauses; consumed by the assignment
	renamed       map[*types.Var]bool
	rangeAlias    map[string]*types.Var // range_i / range_iN -> counting variable of a for loop
	nameAlias     map[string]*types.Var // contract name -> variable, for variables renamed since the contract was written
	concats       [][3]string           // string concatenations (result, left, right) for the JSON-safety facts
}

type byteLeaf struct {
	term  string
	ndecl int
}

type jumpTarget struct {
	label     string
	breaks    []*State
	continues []*State
	isLoop    bool
}

func (fc *FuncCtx) pos(n ast.Node) string {
	if n == nil {
		return ""
	}
	p := fc.w.Fset.Position(n.Pos())
	return fmt.Sprintf("%s:%d", shortPath(p.Filename), p.Line)
}

func shortPath(p string) string {
	if i := strings.Index(p, "/repo/"); i >= 0 {
		return p[i+6:]
	}
	return p
}

func (fc *FuncCtx) fresh(prefix string, t types.Type) Term {
	fc.nfresh++
	name := fmt.Sprintf("%s_%d", sanitize(prefix), fc.nfresh)
	sort := fc.w.Reg.SortOf(t)
	fc.decls = append(fc.decls, fmt.Sprintf("(declare-const %s %s)", name, sort))
	tm := Term{S: name, T: t}
	fc.collectByteLeaves(tm, 0)
	if rf := fc.w.Reg.rangeFact(tm, 0); rf != "true" {
		fc.facts = append(fc.facts, rf)
	}
	return tm
}

func (fc *FuncCtx) freshBool(prefix string) string {
	fc.nfresh++
	name := fmt.Sprintf("%s_%d", sanitize(prefix), fc.nfresh)
	fc.decls = append(fc.decls, fmt.Sprintf("(declare-const %s Bool)", name))
	return name
}

func (fc *FuncCtx) assume(st *State, fact string) {
	if fact == "true" {
		return
	}
	// top-level conjunctions become separate facts (smaller queries after slicing, and a
	// quantified conjunct can be set aside without losing its neighbours)
	if strings.HasPrefix(fact, "(and ") && balanced(fact[5:len(fact)-1]) {
		for _, part := range splitSexp(fact[5 : len(fact)-1]) {
			fc.assume(st, part)
		}
		return
	}
	fc.facts = append(fc.facts, implies(st.guard, fact))
}

func (fc *FuncCtx) funcShort() string {
	k := fc.key
	k = strings.ReplaceAll(k, repoModule+"/", "")
	k = strings.ReplaceAll(k, "(*", "")
	k = strings.ReplaceAll(k, "(", "")
	k = strings.ReplaceAll(k, ")", "")
	k = strings.ReplaceAll(k, "/", ".")
	return k
}

// oblige records a proof obligation: under the facts and the state's guard, goal holds.
func (fc *FuncCtx) oblige(st *State, kind string, site string, goal string, n ast.Node, text string) {
	if st.dead || fc.quiet {
		return
	}
	base := kind
	if site != "" {
		base += "@" + site
	}
	fc.counter[base]++
	name := fmt.Sprintf("%s#%s.%d", fc.funcShort(), kind, fc.counter[base])
	if site != "" {
		name += "@" + site
	}
	o := &Obligation{Name: name, Func: fc.funcShort(), Kind: kind, Goal: goal, Guard: st.guard, NDecl: len(fc.decls), NFact: len(fc.facts), Pos: fc.pos(n), Text: text, fc: fc, Outs: fc.curOuts}
	if goal == "true" {
		o.Trivial = true
		o.Status = "unsat"
		o.Solver = "syntactic"
	}
	fc.obls = append(fc.obls, o)
	// execution continues only if the check passed (a failed check is reported once, here)
	if strings.HasPrefix(kind, "panic.") || kind == "pre" || kind == "disjoint.or" {
		fc.assume(st, goal)
	}
}

func (fc *FuncCtx) cover(st *State, kind string, n ast.Node, text string) {
	fc.counter[kind]++
	name := fmt.Sprintf("%s#%s.%d", fc.funcShort(), kind, fc.counter[kind])
	o := &Obligation{Name: name, Func: fc.funcShort(), Kind: kind, Goal: "false", Guard: st.guard, NDecl: len(fc.decls), NFact: len(fc.facts), Pos: fc.pos(n), Text: text, Cover: true, fc: fc}
	if fc.contract != nil {
		for _, u := range strings.Fields(fc.contract.Opts["unreachable"]) {
			if strings.HasSuffix(name, "#"+u) {
				// declared dead code: exempt from the reachability check (whether it is still dead after a
				// change is not a property of the program; return ordinals shift under refactoring)
				return
			}
		}
	}
	fc.obls = append(fc.obls, o)
}

func (fc *FuncCtx) fail(n ast.Node, f string, a ...interface{}) {
	panic(translateErr(fmt.Sprintf("%s: %s", fc.pos(n), fmt.Sprintf(f, a...))))
}

// query renders the SMT-LIB text of an obligation.
func (o *Obligation) Query(models bool) string { return o.QueryWith(models, nil) }

func (o *Obligation) QueryWith(models bool, extra []string) string {
	return o.queryOpts(models, extra, false)
}

func (o *Obligation) queryOpts(models bool, extra []string, dropQuant bool) string {
	if o.RawQuery != "" {
		return o.RawQuery
	}
	fc := o.fc
	var b strings.Builder
	if models {
		b.WriteString("(set-option :produce-models true)\n")
	}
	ax := fc.w.axiomTexts()
	b.WriteString("(set-logic ALL)\n")
	b.WriteString(fc.w.Reg.Prelude())
	jsonOn := true
	if jsonOn {
		b.WriteString(jsonPrelude())
		b.WriteString("(declare-fun js_bytesval (Sl_Int) Str)\n")
	}
	b.WriteString(fc.w.strPrelude())
	if jsonOn {
		for _, v := range fc.w.Reg.strOrder {
			b.WriteString(fmt.Sprintf("(assert (= (js_strsafe %s) %v))\n", fc.w.Reg.strConsts[v], jsonStrSafe(v)))
		}
	}
	for _, a := range ax {
		if a.local && (fc.pkg == nil || fc.pkg.PkgPath != a.pkg) {
			continue
		}
		if dropQuant && (strings.Contains(a.text, "(forall ") || strings.Contains(a.text, "(exists ")) {
			continue // candidate search: quantified axioms go the way of the quantified hypotheses
		}
		b.WriteString("(assert " + a.text + ")\n")
	}
	for _, d := range fc.decls[:o.NDecl] {
		b.WriteString(d + "\n")
	}
	for _, f := range fc.facts[:o.NFact] {
		if dropQuant && (strings.Contains(f, "(forall ") || strings.Contains(f, "(exists ")) {
			continue
		}
		b.WriteString("(assert " + f + ")\n")
	}
	for _, e := range extra {
		b.WriteString("(assert " + e + ")\n")
	}
	b.WriteString("(assert " + o.Guard + ")\n")
	if !o.Cover {
		b.WriteString("(assert " + not(o.Goal) + ")\n")
	}
	b.WriteString("(check-sat)\n")
	return b.String()
}

func (w *World) strPrelude() string {
	var b strings.Builder
	var names []string
	for _, v := range w.Reg.strOrder {
		c := w.Reg.strConsts[v]
		b.WriteString(fmt.Sprintf("(declare-const %s Str)\n(assert (= (strlen %s) %d))\n", c, c, len(v)))
		names = append(names, c)
	}
	if len(names) > 1 {
		b.WriteString("(assert (distinct " + strings.Join(names, " ") + "))\n")
	}
	return b.String()
}

// merge joins states whose guards are mutually exclusive.
func (fc *FuncCtx) merge(states []*State) *State {
	var live []*State
	for _, s := range states {
		if s != nil && !s.dead && s.guard != "false" {
			live = append(live, s)
		}
	}
	if len(live) == 0 {
		return &State{guard: "false", vars: map[types.Object]Term{}, alias: map[types.Object]ast.Expr{}, ghost: map[string]Term{}, dead: true, held: map[string]string{}}
	}
	if len(live) == 1 {
		return live[0]
	}
	res := live[0].clone()
	for _, s := range live[1:] {
		n := &State{vars: map[types.Object]Term{}, alias: res.alias, ghost: map[string]Term{}, held: res.held, exprAlias: res.exprAlias}
		n.guard = fc.compactBool(or(res.guard, s.guard))
		if res.pendingKey == s.pendingKey {
			n.pendingKey = s.pendingKey
		}
		n.regions = map[string]region{}
		for k, v := range res.regions {
			if w, ok := s.regions[k]; ok && w == v {
				n.regions[k] = v
			} else if !ok {
				n.regions[k] = v
			} else {
				// different buffers on the two paths: released if either is
				n.regions[k] = v
				if s.released[w.base] {
					n.regions[k] = w
				}
			}
		}
		for k, v := range s.regions {
			if _, ok := n.regions[k]; !ok {
				n.regions[k] = v
			}
		}
		n.released = map[string]bool{}
		for k := range res.released {
			n.released[k] = true
		}
		for k := range s.released {
			n.released[k] = true
		}
		keys := map[types.Object]bool{}
		for k := range res.vars {
			keys[k] = true
		}
		for k := range s.vars {
			keys[k] = true
		}
		for k := range keys {
			a, okA := res.vars[k]
			b, okB := s.vars[k]
			switch {
			case okA && okB:
				if m, ok := fc.mergeFieldwise(s.guard, b, a); ok {
					n.vars[k] = fc.compact(m)
				} else {
					n.vars[k] = fc.compact(Term{S: ite(s.guard, b.S, a.S), T: a.T})
				}
				if a.Const != nil && b.Const != nil && *a.Const == *b.Const {
					n.vars[k] = a
				}
				if a.S == b.S && a.Static == b.Static {
					n.vars[k] = a // the same value on both paths (keeps what is statically known about it)
				}
			case okA:
				n.vars[k] = a
			default:
				n.vars[k] = b
			}
		}
		for k, a := range res.ghost {
			if b, ok := s.ghost[k]; ok {
				n.ghost[k] = Term{S: ite(s.guard, b.S, a.S), T: a.T}
			} else {
				n.ghost[k] = a
			}
		}
		for k, b := range s.ghost {
			if _, ok := n.ghost[k]; !ok {
				n.ghost[k] = b
			}
		}
		for k, v := range s.alias {
			if _, ok := n.alias[k]; !ok {
				n.alias[k] = v
			}
		}
		// lock state: must agree, else mark unknown
		for k, v := range s.held {
			if res.held[k] != v {
				n.held[k] = "?"
			}
		}
		res = n
	}
	return res
}

func sortedObls(os []*Obligation) []*Obligation {
	out := append([]*Obligation(nil), os...)
	sort.SliceStable(out, func(i, j int) bool { return out[i].Name < out[j].Name })
	return out
}

var _ = token.NoPos

// compact names a large term with a fresh constant (a definition, always satisfiable), so
// that term size stays linear in the program size.
func (fc *FuncCtx) compact(t Term) Term {
	if len(t.S) < 160 || t.T == nil {
		return t
	}
	fc.nfresh++
	name := fmt.Sprintf("t_%d", fc.nfresh)
	fc.decls = append(fc.decls, fmt.Sprintf("(declare-const %s %s)", name, fc.w.Reg.SortOf(t.T)))
	fc.facts = append(fc.facts, "(= "+name+" "+t.S+")")
	if fc.defs == nil {
		fc.defs = map[string]string{}
	}
	fc.defs[name] = t.S
	fc.w.Reg.curDefs = fc.defs
	return Term{S: name, T: t.T, Const: t.Const, Static: t.Static}
}

func (fc *FuncCtx) compactBool(s string) string {
	if len(s) < 200 {
		return s
	}
	fc.nfresh++
	name := fmt.Sprintf("g_%d", fc.nfresh)
	fc.decls = append(fc.decls, fmt.Sprintf("(declare-const %s Bool)", name))
	fc.facts = append(fc.facts, "(= "+name+" "+s+")")
	return name
}

// collectByteLeaves records the []byte components of a fresh value (for faithful replay models).
func (fc *FuncCtx) collectByteLeaves(t Term, depth int) {
	if depth > 3 || t.T == nil {
		return
	}
	reg := fc.w.Reg
	if as, ok := reg.ifaceAs[reg.typeKey(t.T)]; ok {
		t = Term{S: t.S, T: as}
	}
	switch u := t.T.Underlying().(type) {
	case *types.Slice:
		if b, ok := u.Elem().Underlying().(*types.Basic); ok && b.Kind() == types.Uint8 {
			_, arr, _, _, _ := reg.sliceParts(t)
			fc.byteSlices = append(fc.byteSlices, byteLeaf{arr, len(fc.decls)})
		}
	case *types.Struct:
		si := reg.StructInfo(t.T)
		for _, f := range si.Fields {
			ft, _ := reg.fieldOf(t, f.Name)
			fc.collectByteLeaves(ft, depth+1)
		}
	case *types.Pointer:
		fc.collectByteLeaves(reg.deref(t), depth+1)
	}
}

// byteAxioms: every cell of the recorded byte arrays is a byte (used in model queries only).
func (o *Obligation) byteAxioms() []string {
	var out []string
	for _, b := range o.fc.byteSlices {
		if b.ndecl <= o.NDecl {
			out = append(out, "(forall ((qb Int)) (and (<= 0 (select "+b.term+" qb)) (< (select "+b.term+" qb) 256)))")
		}
	}
	return out
}

// mergeFieldwise: ite(g, b, a) for two struct values (or two non-nil pointers to structs) whose fields are known,
// built field by field so that fields equal on both sides stay what they were (long chains of updates of single
// fields otherwise bury every field under one ite per update).
func (fc *FuncCtx) mergeFieldwise(g string, b, a Term) (Term, bool) {
	if a.S == b.S || a.T == nil {
		return Term{}, false
	}
	reg := fc.reg()
	if pt, ok := a.T.Underlying().(*types.Pointer); ok {
		if _, isStruct := pt.Elem().Underlying().(*types.Struct); !isStruct {
			return Term{}, false
		}
		s := reg.SortOf(a.T)
		pre := "(ref_" + s + " "
		ra, rb := reg.resolve(a.S), reg.resolve(b.S)
		if !strings.HasPrefix(ra, pre) || !strings.HasPrefix(rb, pre) {
			return Term{}, false
		}
		ia := Term{S: ra[len(pre) : len(ra)-1], T: pt.Elem()}
		ib := Term{S: rb[len(pre) : len(rb)-1], T: pt.Elem()}
		m, ok := fc.mergeFieldwise(g, ib, ia)
		if !ok {
			return Term{}, false
		}
		return reg.ref(fc.compact(m), a.T), true
	}
	if _, ok := a.T.Underlying().(*types.Struct); !ok {
		return Term{}, false
	}
	si := reg.StructInfo(a.T)
	if si == nil || len(si.Fields) < 4 || len(si.Fields) > 128 {
		return Term{}, false
	}
	var fs []string
	same := 0
	for i := range si.Fields {
		fa, okA := reg.knownField(a.S, si.Ctor, i, len(si.Fields), 0)
		fb, okB := reg.knownField(b.S, si.Ctor, i, len(si.Fields), 0)
		if !okA {
			fa = "(" + si.Fields[i].Sel + " " + a.S + ")"
		}
		if !okB {
			fb = "(" + si.Fields[i].Sel + " " + b.S + ")"
		}
		if fa == fb {
			fs = append(fs, fa)
			same++
		} else {
			fs = append(fs, ite(g, fb, fa))
		}
	}
	if same == 0 {
		return Term{}, false
	}
	return Term{S: "(" + si.Ctor + " " + strings.Join(fs, " ") + ")", T: a.T}, true
}

// loopFrame: a loop under contract whose body is being executed.
type loopFrame struct {
	lc             *LoopContract
	ord            int
	pre, bodyStart *State
	at             token.Pos
}
