package main

// Evaluation of contract expressions to SMT terms.

import (
	"fmt"
	"go/constant"
	"go/types"
	"math/big"
	"regexp"
	"strconv"
	"strings"

	"golang.org/x/tools/go/packages"
)

type CEnv struct {
	w        *World
	pkg      *packages.Package
	vars     map[string]Term
	old      *CEnv
	depth    int
	nq       *int
	lookup   func(string) (Term, bool)
	globalOf func(*types.Var) (Term, bool)
	pre      *CEnv
	iter     *CEnv
	bound    map[string]Term // quantifier-bound variables (visible inside old/pre/iter too)
	side     *[]string       // range facts of the integer cells selected while evaluating (true of every real slice)
	define   func(Term) Term // names a large closed term by a fresh constant (definitional fact); nil outside function contexts
}

func (w *World) newEnv(pkg *packages.Package) *CEnv {
	n := 0
	return &CEnv{w: w, pkg: pkg, vars: map[string]Term{}, nq: &n}
}

func (e *CEnv) child() *CEnv {
	c := &CEnv{w: e.w, pkg: e.pkg, vars: map[string]Term{}, old: e.old, depth: e.depth, nq: e.nq, lookup: e.lookup, pre: e.pre, iter: e.iter, globalOf: e.globalOf, bound: map[string]Term{}, side: e.side, define: e.define}
	for k, v := range e.bound {
		c.bound[k] = v
	}
	for k, v := range e.vars {
		c.vars[k] = v
	}
	return c
}

type cevalErr string

func cfail(f string, a ...interface{}) { panic(cevalErr(fmt.Sprintf(f, a...))) }

func (e *CEnv) reg() *Registry { return e.w.Reg }

// autoDeref follows pointers until a non-pointer value.
func (e *CEnv) autoDeref(t Term) Term {
	for {
		if as, ok := e.reg().ifaceAs[e.reg().typeKey(t.T)]; ok {
			t = Term{S: t.S, T: as}
		}
		if _, ok := t.T.Underlying().(*types.Pointer); ok {
			t = e.reg().deref(t)
			continue
		}
		return t
	}
}

func (e *CEnv) lookupConst(name string) (Term, bool) {
	look := func(p *types.Package) (Term, bool) {
		if p == nil {
			return Term{}, false
		}
		o := p.Scope().Lookup(name)
		if c, ok := o.(*types.Const); ok {
			return e.w.constTerm(c.Val(), c.Type()), true
		}
		return Term{}, false
	}
	if e.pkg != nil {
		if t, ok := look(e.pkg.Types); ok {
			return t, true
		}
	}
	return Term{}, false
}

func (w *World) constTerm(v constant.Value, t types.Type) Term {
	switch v.Kind() {
	case constant.Bool:
		return Term{S: strconv.FormatBool(constant.BoolVal(v)), T: t}
	case constant.Int:
		bi, _ := new(big.Int).SetString(v.ExactString(), 10)
		return Term{S: bigLit(bi), T: t}
	case constant.String:
		s := constant.StringVal(v)
		return Term{S: w.Reg.strConst(s), T: t, Const: &s}
	case constant.Float:
		// floats are bit patterns; constants only appear in code we do not verify numerically
		f, _ := constant.Float64Val(v)
		if f == float64(int64(f)) && isInteger(t) {
			return Term{S: intLit(int64(f)), T: t}
		}
		return Term{S: "0", T: t}
	}
	return Term{S: "0", T: t}
}

func (e *CEnv) eval(x CExpr) Term {
	switch n := x.(type) {
	case *CInt:
		bi := new(big.Int)
		if strings.HasPrefix(n.Val, "0x") || strings.HasPrefix(n.Val, "0X") {
			bi.SetString(n.Val[2:], 16)
		} else {
			bi.SetString(n.Val, 10)
		}
		return mkMath(bigLit(bi))
	case *CBool:
		if n.Val {
			return tTrue()
		}
		return tFalse()
	case *CStr:
		s, _ := strconv.Unquote(n.Val)
		return Term{S: e.reg().strConst(s), T: types.Typ[types.String], Const: &s}
	case *CNil:
		return Term{S: "nil", T: types.Typ[types.UntypedNil]}
	case *CIdent:
		if t, ok := e.vars[n.Name]; ok {
			return t
		}
		if e.lookup != nil {
			if t, ok := e.lookup(n.Name); ok {
				return t
			}
		}
		if t, ok := e.lookupConst(n.Name); ok {
			return t
		}
		cfail("unknown identifier %s", n.Name)
	case *CUnary:
		v := e.eval(n.X)
		if n.Op == "!" {
			return mkBool(not(v.S))
		}
		if n.Op == "*" {
			return e.autoDeref(v)
		}
		return mkMath("(- " + v.S + ")")
	case *CBinary:
		return e.binary(n)
	case *CIte:
		c, a, b := e.eval(n.C), e.eval(n.A), e.eval(n.B)
		a, b = e.unifyNil(a, b)
		return Term{S: ite(c.S, a.S, b.S), T: a.T}
	case *CSelect:
		// package-qualified constant?
		if id, ok := n.X.(*CIdent); ok {
			_, isVar := e.vars[id.Name]
			if !isVar && e.lookup != nil {
				_, isVar = e.lookup(id.Name)
			}
			if !isVar {
				if tp := e.w.findPkgByName(id.Name, e.pkg); tp != nil {
					if c, ok := tp.Scope().Lookup(n.Sel).(*types.Const); ok {
						return e.w.constTerm(c.Val(), c.Type())
					}
					if gv, ok := tp.Scope().Lookup(n.Sel).(*types.Var); ok && e.globalOf != nil {
						if t, ok := e.globalOf(gv); ok {
							return t
						}
					}
					cfail("unknown %s.%s", id.Name, n.Sel)
				}
			}
		}
		v := e.autoDeref(e.eval(n.X))
		if _, ok := v.T.Underlying().(*types.Struct); ok {
			if f, ok := e.reg().fieldOf(v, n.Sel); ok {
				return f
			}
			// promoted field through embedded struct
			si := e.reg().StructInfo(v.T)
			for _, f := range si.Fields {
				ft, _ := e.reg().fieldOf(v, f.Name)
				if _, ok := ft.T.Underlying().(*types.Struct); ok {
					if g, ok := e.reg().fieldOf(ft, n.Sel); ok {
						return g
					}
				}
			}
		}
		if _, ok := v.T.Underlying().(*types.Slice); ok {
			_, arr, off, ln, cp := e.reg().sliceParts(v)
			switch n.Sel {
			case "off":
				return mkMath(off)
			case "len":
				return mkMath(ln)
			case "cap":
				return mkMath(cp)
			case "arr":
				return Term{S: arr, T: types.NewArray(v.T.Underlying().(*types.Slice).Elem(), 0)}
			}
		}
		if _, ok := v.T.Underlying().(*types.Map); ok && n.Sel == "isnil" {
			ms := e.reg().SortOf(v.T)
			return mkBool("(isnil_" + ms + " " + v.S + ")")
		}
		cfail("no field %s in %s", n.Sel, types.TypeString(v.T, nil))
	case *CIndex:
		v := e.autoDeref(e.eval(n.X))
		i := e.eval(n.I)
		switch u := v.T.Underlying().(type) {
		case *types.Slice:
			_, arr, off, _, _ := e.reg().sliceParts(v)
			r := Term{S: "(select " + arr + " (+ " + off + " " + i.S + "))", T: u.Elem()}
			e.noteCell(r)
			return r
		case *types.Array:
			r := Term{S: "(select " + v.S + " " + i.S + ")", T: u.Elem()}
			e.noteCell(r)
			return r
		case *types.Map:
			s := e.reg().SortOf(v.T)
			return Term{S: "(select (val_" + s + " " + v.S + ") " + i.S + ")", T: u.Elem()}
		}
		cfail("cannot index %s", types.TypeString(v.T, nil))
	case *CSlice:
		v := e.autoDeref(e.eval(n.X))
		if _, ok := v.T.Underlying().(*types.Slice); !ok {
			cfail("cannot slice %s", types.TypeString(v.T, nil))
		}
		_, arr, off, ln, cp := e.reg().sliceParts(v)
		lo, hi := "0", ln
		if n.Lo != nil {
			lo = e.eval(n.Lo).S
		}
		if n.Hi != nil {
			hi = e.eval(n.Hi).S
		}
		return e.reg().mkSlice(v.T, arr, plus(off, lo), minus(hi, lo), minus(cp, lo))
	case *CQuant:
		c := e.child()
		var binds []string
		var ranges []string
		for i, v := range n.Vars {
			*e.nq++
			name := fmt.Sprintf("q%d_%s", *e.nq, v)
			var ty types.Type = tMath
			if n.Types[i] != "" {
				t, err := e.w.resolveType(n.Types[i], e.pkg)
				if err != nil {
					cfail("%v", err)
				}
				ty = t
			}
			binds = append(binds, "("+name+" "+e.reg().SortOf(ty)+")")
			tm := Term{S: name, T: ty}
			c.vars[v] = tm
			c.bound[v] = tm
			if rf := e.reg().rangeFact(tm, 0); rf != "true" {
				ranges = append(ranges, rf)
			}
		}
		body := c.eval(n.Body)
		if n.Forall {
			if n.Trigger != nil {
				// the written trigger is the only one: the instances are the ones the contracts ask for
				var trs []string
				for _, t := range n.Trigger {
					trs = append(trs, c.eval(t).S)
				}
				return mkBool("(forall (" + strings.Join(binds, " ") + ") (! " + implies(and(ranges...), body.S) + " :pattern (" + strings.Join(trs, " ") + ")))")
			}
			return mkBool("(forall (" + strings.Join(binds, " ") + ") " + implies(and(ranges...), body.S) + ")")
		}
		return mkBool("(exists (" + strings.Join(binds, " ") + ") " + and(append(ranges, body.S)...) + ")")
	case *CCall:
		return e.call(n)
	}
	cfail("cannot evaluate %s", cexprString(x))
	return Term{}
}

func plus(a, b string) string {
	if b == "0" {
		return a
	}
	if a == "0" {
		return b
	}
	return "(+ " + a + " " + b + ")"
}
func minus(a, b string) string {
	if b == "0" {
		return a
	}
	return "(- " + a + " " + b + ")"
}

// unifyNil turns an untyped nil into the zero of the other side's type.
func (e *CEnv) unifyNil(a, b Term) (Term, Term) {
	isNil := func(t Term) bool {
		bt, ok := t.T.(*types.Basic)
		return ok && bt.Kind() == types.UntypedNil
	}
	if isNil(a) && !isNil(b) {
		a = e.reg().Zero(b.T)
	} else if isNil(b) && !isNil(a) {
		b = e.reg().Zero(a.T)
	}
	return a, b
}

func (e *CEnv) eqTerms(a, b Term) string {
	isNil := func(t Term) bool {
		bt, ok := t.T.(*types.Basic)
		return ok && bt.Kind() == types.UntypedNil
	}
	if isNil(b) {
		return e.reg().isNil(a)
	}
	if isNil(a) {
		return e.reg().isNil(b)
	}
	sa, sb := e.reg().SortOf(a.T), e.reg().SortOf(b.T)
	if sa != sb {
		cfail("comparing %s with %s", types.TypeString(a.T, nil), types.TypeString(b.T, nil))
	}
	return eq(a.S, b.S)
}

func (e *CEnv) binary(n *CBinary) Term {
	switch n.Op {
	case "&&":
		return mkBool(and(e.eval(n.X).S, e.eval(n.Y).S))
	case "||":
		return mkBool(or(e.eval(n.X).S, e.eval(n.Y).S))
	case "==>":
		return mkBool(implies(e.eval(n.X).S, e.eval(n.Y).S))
	case "<==>":
		return mkBool(eq(e.eval(n.X).S, e.eval(n.Y).S))
	}
	a, b := e.eval(n.X), e.eval(n.Y)
	switch n.Op {
	case "==":
		return mkBool(e.eqTerms(a, b))
	case "!=":
		return mkBool(not(e.eqTerms(a, b)))
	case "<", "<=", ">", ">=":
		return mkBool("(" + n.Op + " " + a.S + " " + b.S + ")")
	case "+", "-", "*":
		return mkMath("(" + n.Op + " " + a.S + " " + b.S + ")")
	case "/":
		return mkMath("(div " + a.S + " " + b.S + ")")
	case "%":
		return mkMath("(mod " + a.S + " " + b.S + ")")
	case "<<":
		return mkMath("(* " + a.S + " " + e.pow2Of(b) + ")")
	case ">>":
		return mkMath("(div " + a.S + " " + e.pow2Of(b) + ")")
	}
	cfail("operator %s not supported in contracts", n.Op)
	return Term{}
}

func (e *CEnv) pow2Of(b Term) string {
	n, err := strconv.Atoi(b.S)
	if err != nil || n < 0 || n > 64 {
		cfail("shift amount must be a small literal")
	}
	return pow2(n)
}

func (e *CEnv) call(n *CCall) Term {
	// old(...)
	if n.Recv == nil {
		switch n.Fun {
		case "old":
			if e.old == nil {
				cfail("old() not available here")
			}
			return e.withBound(e.old).eval(n.Args[0])
		case "iter":
			if e.iter == nil {
				cfail("iter() only available in loop step clauses")
			}
			return e.withBound(e.iter).eval(n.Args[0])
		case "pre":
			if e.pre == nil {
				cfail("pre() only available in loop contracts")
			}
			return e.withBound(e.pre).eval(n.Args[0])
		case "len", "cap":
			v := e.autoDeref(e.eval(n.Args[0]))
			switch v.T.Underlying().(type) {
			case *types.Slice:
				_, _, _, ln, cp := e.reg().sliceParts(v)
				if n.Fun == "len" {
					return mkMath(ln)
				}
				return mkMath(cp)
			case *types.Basic:
				if v.Const != nil {
					return mkMath(strconv.Itoa(len(*v.Const)))
				}
				return mkMath("(strlen " + v.S + ")")
			case *types.Map:
				s := e.reg().SortOf(v.T)
				return mkMath("(size_" + s + " " + v.S + ")")
			case *types.Array:
				return mkMath(strconv.FormatInt(v.T.Underlying().(*types.Array).Len(), 10))
			}
			cfail("len of %s", types.TypeString(v.T, nil))
		case "visited", "visited1", "visited2", "visited3", "visited4": // visited(k): the enclosing map range has already iterated key k
			name := "range_seen" + strings.TrimPrefix(n.Fun, "visited")
			g, ok := e.lookup(name)
			if !ok {
				cfail("%s: no enclosing range over a map", n.Fun)
			}
			k := e.eval(n.Args[0])
			return mkBool("(select " + g.S + " " + k.S + ")")
		case "lookup": // lookup(m, k): the value Go's m[k] yields (zero value when the key is absent or the map nil)
			m := e.autoDeref(e.eval(n.Args[0]))
			k := e.eval(n.Args[1])
			mt, ok := m.T.Underlying().(*types.Map)
			if !ok {
				cfail("lookup: not a map")
			}
			s := e.reg().SortOf(m.T)
			present := "(and (not (isnil_" + s + " " + m.S + ")) (select (dom_" + s + " " + m.S + ") " + k.S + "))"
			return Term{S: ite(present, "(select (val_"+s+" "+m.S+") "+k.S+")", e.reg().Zero(mt.Elem()).S), T: mt.Elem()}
		case "has": // has(m, k): key present in map
			m := e.autoDeref(e.eval(n.Args[0]))
			k := e.eval(n.Args[1])
			s := e.reg().SortOf(m.T)
			return mkBool("(select (dom_" + s + " " + m.S + ") " + k.S + ")")
		case "isNilErr":
			v := e.eval(n.Args[0])
			return mkBool(e.reg().isNil(v))
		case "typeid": // typeid(x): dynamic type id of an interface value
			v := e.eval(n.Args[0])
			return mkMath(anyTypeID(v.S))
		case "tyof": // tyof(T): the id of Go type T
			id, ok := n.Args[0].(*CIdent)
			var ts string
			if ok {
				ts = id.Name
			} else {
				ts = cexprString(n.Args[0])
			}
			t, err := e.w.resolveType(ts, e.pkg)
			if err != nil {
				cfail("%v", err)
			}
			return mkMath(strconv.Itoa(e.reg().TypeID(t)))
		case "unbox": // unbox(x, T): the value of struct/pointer type T stored in interface x
			v := e.eval(n.Args[0])
			ts := cexprString(n.Args[1])
			t, err := e.w.resolveType(ts, e.pkg)
			if err != nil {
				cfail("%v", err)
			}
			sort := e.reg().SortOf(t)
			name := "unbox_" + sanitize(sort)
			if !e.reg().unboxFns[name] {
				e.reg().unboxFns[name] = true
				e.reg().uninterp = append(e.reg().uninterp, "(declare-fun "+name+" (Int) "+sort+")")
			}
			return Term{S: "(" + name + " (any_oid " + v.S + "))", T: t}
		case "isboxed": // isboxed(x, T): x holds a value of struct/pointer type T
			v := e.eval(n.Args[0])
			t, err := e.w.resolveType(cexprString(n.Args[1]), e.pkg)
			if err != nil {
				cfail("%v", err)
			}
			return mkBool("(and ((_ is any_other) " + v.S + ") (= (any_oty " + v.S + ") " + strconv.Itoa(e.reg().TypeID(t)) + "))")
		case "jsnum":
			return mkBool("(js_isnum " + e.eval(n.Args[0]).S + ")")
		case "jsnumval":
			return mkMath("(js_numval " + e.eval(n.Args[0]).S + ")")
		case "jssafe":
			return mkBool("(js_strsafe " + e.eval(n.Args[0]).S + ")")
		case "jslit":
			return mkBool("(js_strlit " + e.eval(n.Args[0]).S + ")")
		case "jsbyteslit":
			return mkBool("(js_byteslit " + e.autoDeref(e.eval(n.Args[0])).S + ")")
		case "jscanon":
			return mkBool("(js_canon " + e.eval(n.Args[0]).S + ")")
		case "jstop":
			return mkMath("(js_top " + e.eval(n.Args[0]).S + ")")
		case "jsset":
			j := e.eval(n.Args[0])
			return Term{S: "(js_set " + j.S + " " + e.eval(n.Args[1]).S + ")", T: j.T}
		case "jspush":
			j := e.eval(n.Args[0])
			return Term{S: "(js_push " + j.S + " " + e.eval(n.Args[1]).S + " " + e.eval(n.Args[2]).S + ")", T: j.T}
		case "mkstruct": // mkstruct(TypeName, field values in declaration order)
			t, err := e.w.resolveType(cexprString(n.Args[0]), e.pkg)
			if err != nil {
				cfail("%v", err)
			}
			si := e.reg().StructInfo(t)
			if si == nil || len(si.Fields) != len(n.Args)-1 {
				cfail("mkstruct(%s): wrong number of field values", cexprString(n.Args[0]))
			}
			var fs []string
			for _, a := range n.Args[1:] {
				fs = append(fs, e.eval(a).S)
			}
			return Term{S: "(" + si.Ctor + " " + strings.Join(fs, " ") + ")", T: t}
		case "strof": // strof(b): the string conversion string(b) of a byte slice
			b := e.autoDeref(e.eval(n.Args[0]))
			e.w.declareUninterp(&Uninterp{Name: "str_of_bytes", Params: []ParamDecl{{"b", types.NewSlice(types.Typ[types.Uint8])}}, Result: types.Typ[types.String]})
			return Term{S: "(u_str_of_bytes " + b.S + ")", T: types.Typ[types.String]}
		case "strcat":
			a, b := e.eval(n.Args[0]), e.eval(n.Args[1])
			e.w.declareUninterp(&Uninterp{Name: "strcat", Params: []ParamDecl{{"a", types.Typ[types.String]}, {"b", types.Typ[types.String]}}, Result: types.Typ[types.String]})
			return Term{S: "(u_strcat " + a.S + " " + b.S + ")", T: types.Typ[types.String]}
		case "val": // val(p): the value a pointer points to
			v := e.eval(n.Args[0])
			if _, ok := v.T.Underlying().(*types.Pointer); !ok {
				cfail("val() of non-pointer")
			}
			return e.reg().deref(v)
		case "anyint":
			v := e.eval(n.Args[0])
			return mkMath("(any_iv " + v.S + ")")
		case "isanyint":
			v := e.eval(n.Args[0])
			return mkBool("((_ is any_int) " + v.S + ")")
		case "anybytes":
			v := e.eval(n.Args[0])
			return Term{S: "(any_bs " + v.S + ")", T: types.NewSlice(types.Typ[types.Uint8])}
		case "anybool":
			v := e.eval(n.Args[0])
			return mkBool("(any_bv " + v.S + ")")
		case "anystr":
			v := e.eval(n.Args[0])
			return Term{S: "(any_sv " + v.S + ")", T: types.Typ[types.String]}
		case "iskind": // iskind(x, int|bool|str|bytes|other|nil)
			v := e.eval(n.Args[0])
			k := n.Args[1].(*CIdent).Name
			return mkBool("((_ is any_" + k + ") " + v.S + ")")
		case "mkbytes": // mkbytes(arr-of-slice, off, len): a []byte value over the array of the given slice
			s := e.autoDeref(e.eval(n.Args[0]))
			_, arr, _, _, _ := e.reg().sliceParts(s)
			off, ln := e.eval(n.Args[1]), e.eval(n.Args[2])
			return e.reg().mkSlice(s.T, arr, off.S, ln.S, ln.S)
		case "sameview": // same backing array, offset and length (capacity not compared)
			a, b := e.autoDeref(e.eval(n.Args[0])), e.autoDeref(e.eval(n.Args[1]))
			_, aa, ao, al, _ := e.reg().sliceParts(a)
			_, ba, bo, bl, _ := e.reg().sliceParts(b)
			return mkBool(and(eq(aa, ba), eq(ao, bo), eq(al, bl)))
		case "sameArr":
			a, b := e.autoDeref(e.eval(n.Args[0])), e.autoDeref(e.eval(n.Args[1]))
			_, aa, _, _, _ := e.reg().sliceParts(a)
			_, ba, _, _, _ := e.reg().sliceParts(b)
			return mkBool(eq(aa, ba))
		case "eqbytes": // extensional equality of two byte slices
			a, b := e.autoDeref(e.eval(n.Args[0])), e.autoDeref(e.eval(n.Args[1]))
			_, aa, ao, al, _ := e.reg().sliceParts(a)
			_, ba, bo, bl, _ := e.reg().sliceParts(b)
			// absolute-index form in both directions (a select on either array triggers the instance)
			*e.nq++
			q := fmt.Sprintf("q%d_i", *e.nq)
			*e.nq++
			q2 := fmt.Sprintf("q%d_i", *e.nq)
			pat := func(arr, v string) string {
				if strings.Contains(arr, "(ite ") || strings.Contains(arr, "(let ") {
					return "" // not allowed in patterns: the solver picks its own
				}
				return " :pattern ((select " + arr + " " + v + "))"
			}
			bang := func(body, p string) string {
				if p == "" {
					return body
				}
				return "(! " + body + p + ")"
			}
			fa := "(forall ((" + q + " Int)) " + bang("(=> (and (<= "+ao+" "+q+") (< "+q+" (+ "+ao+" "+al+"))) (= (select "+aa+" "+q+") (select "+ba+" (+ (- "+q+" "+ao+") "+bo+"))))", pat(aa, q)) + ")"
			fb := "(forall ((" + q2 + " Int)) " + bang("(=> (and (<= "+bo+" "+q2+") (< "+q2+" (+ "+bo+" "+bl+"))) (= (select "+ba+" "+q2+") (select "+aa+" (+ (- "+q2+" "+bo+") "+ao+"))))", pat(ba, q2)) + ")"
			return mkBool("(and (= " + al + " " + bl + ") " + fa + " " + fb + ")")
		}
	}
	name := n.Fun
	var args []Term
	if n.Recv != nil {
		// method-style macro: first parameter is the receiver; package-qualified call otherwise
		if id, ok := n.Recv.(*CIdent); ok {
			if _, isVar := e.vars[id.Name]; !isVar && e.w.findPkgByName(id.Name, e.pkg) != nil {
				goto plain
			}
		}
		args = append(args, e.eval(n.Recv))
	}
plain:
	for _, a := range n.Args {
		args = append(args, e.eval(a))
	}
	if m, ok := e.w.Macros[name]; ok {
		if len(args) != len(m.Params) {
			cfail("%s expects %d arguments, got %d", name, len(m.Params), len(args))
		}
		if e.depth > 40 {
			cfail("macro recursion in %s", name)
		}
		c := &CEnv{w: e.w, pkg: m.Pkg, vars: map[string]Term{}, old: nil, depth: e.depth + 1, nq: e.nq, globalOf: e.globalOf, lookup: e.globalsOnly(), side: e.side, define: e.define, bound: e.bound}
		if c.pkg == nil {
			c.pkg = e.pkg
		}
		var lets [][2]string
		for i, p := range m.Params {
			a := args[i]
			if bt, ok := a.T.(*types.Basic); ok && bt.Kind() == types.UntypedNil {
				a = e.reg().Zero(p.Type)
			}
			// parameter of non-pointer type given a pointer: auto-deref
			if _, isPtr := p.Type.Underlying().(*types.Pointer); !isPtr {
				if _, argPtr := a.T.Underlying().(*types.Pointer); argPtr {
					a = e.autoDeref(a)
				}
			}
			// a large argument is bound by a let instead of being copied into every use (nested predicates over
			// slices of slices otherwise grow exponentially)
			if len(a.S) > 160 && e.define != nil && a.T != nil && a.T != tMath && !e.mentionsBound(a.S) {
				a = e.define(a)
			}
			if len(a.S) > 160 {
				*e.nq++
				sym := fmt.Sprintf("mp%d_", *e.nq)
				lets = append(lets, [2]string{sym, a.S})
				a.S = sym
			}
			c.vars[p.Name] = a
		}
		nside := 0
		if e.side != nil {
			nside = len(*e.side)
		}
		r := c.eval(m.Body)
		if m.Result != nil && m.Result != tBool && r.T == tMath {
			r.T = m.Result
		}
		if len(lets) > 0 {
			// side facts leave the scope of the let: substitute the argument back (they are single cells)
			if e.side != nil {
				for i := nside; i < len(*e.side); i++ {
					for j := len(lets) - 1; j >= 0; j-- {
						(*e.side)[i] = strings.ReplaceAll((*e.side)[i], lets[j][0], lets[j][1])
					}
				}
			}
			used := false
			for _, l := range lets {
				if strings.Contains(r.S, l[0]) {
					used = true
				}
			}
			if used {
				var bs []string
				for _, l := range lets {
					bs = append(bs, "("+l[0]+" "+l[1]+")")
				}
				r.S = "(let (" + strings.Join(bs, " ") + ") " + r.S + ")"
			}
		}
		return r
	}
	if u, ok := e.w.Uninterps[name]; ok {
		if len(args) != len(u.Params) {
			cfail("%s expects %d arguments", name, len(u.Params))
		}
		e.w.declareUninterp(u)
		var as []string
		for i, a := range args {
			if _, isPtr := u.Params[i].Type.Underlying().(*types.Pointer); !isPtr {
				if _, argPtr := a.T.Underlying().(*types.Pointer); argPtr {
					a = e.autoDeref(a)
				}
			}
			as = append(as, a.S)
		}
		if len(as) == 0 {
			return Term{S: "u_" + name, T: u.Result}
		}
		return Term{S: "(u_" + name + " " + strings.Join(as, " ") + ")", T: u.Result}
	}
	cfail("unknown spec function %s", name)
	return Term{}
}

func anyTypeID(v string) string {
	return "(ite ((_ is any_int) " + v + ") (any_ty " + v + ") (ite ((_ is any_str) " + v + ") (any_sty " + v + ") (ite ((_ is any_bytes) " + v + ") (any_bty " + v + ") (ite ((_ is any_other) " + v + ") (any_oty " + v + ") (ite ((_ is any_bool) " + v + ") (- 1) 0)))))"
}

func (w *World) declareUninterp(u *Uninterp) {
	var ps []string
	for _, p := range u.Params {
		ps = append(ps, w.Reg.SortOf(p.Type))
	}
	var line string
	if len(ps) == 0 {
		line = fmt.Sprintf("(declare-const u_%s %s)", u.Name, w.Reg.SortOf(u.Result))
	} else {
		line = fmt.Sprintf("(declare-fun u_%s (%s) %s)", u.Name, strings.Join(ps, " "), w.Reg.SortOf(u.Result))
	}
	for _, d := range w.Reg.uninterp {
		if d == line {
			return
		}
	}
	w.Reg.uninterp = append(w.Reg.uninterp, line)
}

type axiomText struct {
	text  string
	pkg   string // package path of the contract file that states it
	local bool   // name starts with "local.": used only for functions of that package
}

var axiomCache []axiomText
var axiomDone bool

func (w *World) axiomTexts() []axiomText {
	if axiomDone {
		return axiomCache
	}
	axiomDone = true
	for _, a := range w.Axioms {
		env := w.newEnv(a.Pkg)
		func() {
			defer func() {
				if r := recover(); r != nil {
					w.Problems = append(w.Problems, fmt.Sprintf("axiom %s: %v", a.Name, r))
				}
			}()
			t := env.eval(a.Body)
			at := axiomText{text: t.S, local: strings.HasPrefix(a.Name, "local.")}
			if a.Pkg != nil {
				at.pkg = a.Pkg.PkgPath
			}
			axiomCache = append(axiomCache, at)
		}()
	}
	return axiomCache
}

// globalsOnly restricts name lookup inside macro bodies to package-level variables.
func (e *CEnv) globalsOnly() func(string) (Term, bool) {
	if e.globalOf == nil {
		return nil
	}
	return func(name string) (Term, bool) {
		for _, p := range e.w.Pkgs {
			_ = p
		}
		if e.pkg != nil {
			if gv, ok := e.pkg.Types.Scope().Lookup(name).(*types.Var); ok {
				return e.globalOf(gv)
			}
		}
		return Term{}, false
	}
}

// withBound: the other-state environment extended with the quantified variables in scope.
func (e *CEnv) withBound(o *CEnv) *CEnv {
	if len(e.bound) == 0 {
		return o
	}
	c := o.child()
	for k, v := range e.bound {
		c.vars[k] = v
		c.bound[k] = v
	}
	return c
}

var boundVarRe = regexp.MustCompile(`\bq\d+_`)

// noteCell records the range fact of a selected integer cell (unless it mentions a bound variable).
func (e *CEnv) noteCell(t Term) {
	if e.side == nil || !isInteger(t.T) {
		return
	}
	if _, _, _, _, ok := intRange(t.T); !ok {
		return
	}
	if boundVarRe.MatchString(t.S) {
		return
	}
	*e.side = append(*e.side, e.reg().rangeFact(t, 0))
}

// mentionsBound: the term refers to a quantifier-bound variable (and so cannot be named by a constant).
func (e *CEnv) mentionsBound(s string) bool {
	for _, v := range e.bound {
		if strings.Contains(s, v.S) {
			return true
		}
	}
	return strings.Contains(s, "mp") && strings.Contains(s, "_") && letSym.MatchString(s)
}

var letSym = regexp.MustCompile(`\bmp[0-9]+_`)
