package main

// SMT sorts, terms and the datatype registry.

import (
	"fmt"
	"go/types"
	"math/big"
	"regexp"
	"sort"
	"strings"
)

// Term is an SMT-LIB term together with the Go type of the value it denotes.
// Spec-level mathematical integers use tMath; spec booleans types.Typ[types.Bool].
type Term struct {
	S string
	T types.Type
	// for string constants the Go value is kept (JSON type-state, fmt verbs)
	Const *string
	// static knowledge about integer values: 0 <= v < 2^Bits (Bits > 0) and v is a multiple of 2^Low
	Bits int
	Low  int
	// statically known run-time type information (package reflect on a static type): *rtype, *rfield, *rvalue
	Static interface{}
}

var stdSizes = types.SizesFor("gc", "amd64")

var (
	tMath = types.Typ[types.UntypedInt]
	tBool = types.Typ[types.Bool]
	tInt  = types.Typ[types.Int]
)

func mkBool(s string) Term { return Term{S: s, T: tBool} }
func mkMath(s string) Term { return Term{S: s, T: tMath} }
func tTrue() Term          { return mkBool("true") }
func tFalse() Term         { return mkBool("false") }

func intLit(v int64) string {
	if v < 0 {
		return fmt.Sprintf("(- %d)", -v)
	}
	return fmt.Sprintf("%d", v)
}
func bigLit(v *big.Int) string {
	if v.Sign() < 0 {
		return "(- " + new(big.Int).Neg(v).String() + ")"
	}
	return v.String()
}

func and(ts ...string) string {
	var xs []string
	for _, t := range ts {
		if t == "true" || t == "" {
			continue
		}
		if t == "false" {
			return "false"
		}
		xs = append(xs, t)
	}
	switch len(xs) {
	case 0:
		return "true"
	case 1:
		return xs[0]
	}
	return "(and " + strings.Join(xs, " ") + ")"
}
func or(ts ...string) string {
	var xs []string
	for _, t := range ts {
		if t == "false" || t == "" {
			continue
		}
		if t == "true" {
			return "true"
		}
		xs = append(xs, t)
	}
	switch len(xs) {
	case 0:
		return "false"
	case 1:
		return xs[0]
	}
	return "(or " + strings.Join(xs, " ") + ")"
}
func not(t string) string {
	switch t {
	case "true":
		return "false"
	case "false":
		return "true"
	}
	if strings.HasPrefix(t, "(not ") && balanced(t[5:len(t)-1]) {
		return t[5 : len(t)-1]
	}
	return "(not " + t + ")"
}
func balanced(s string) bool {
	d := 0
	for _, c := range s {
		if c == '(' {
			d++
		} else if c == ')' {
			d--
			if d < 0 {
				return false
			}
		}
	}
	return d == 0
}
func implies(a, b string) string {
	if a == "true" {
		return b
	}
	if a == "false" || b == "true" {
		return "true"
	}
	return "(=> " + a + " " + b + ")"
}
func ite(c, a, b string) string {
	if c == "true" {
		return a
	}
	if c == "false" {
		return b
	}
	if a == b {
		return a
	}
	return "(ite " + c + " " + a + " " + b + ")"
}
func eq(a, b string) string {
	if a == b {
		return "true"
	}
	if isDecimal(a) && isDecimal(b) {
		return "false" // two different numerals
	}
	return "(= " + a + " " + b + ")"
}

func isDecimal(s string) bool {
	if s == "" || len(s) > 20 {
		return false
	}
	for _, c := range s {
		if c < '0' || c > '9' {
			return false
		}
	}
	return true
}

// ---------------------------------------------------------------------------
// Sort registry

type fieldInfo struct {
	Name  string
	Type  types.Type
	Ghost bool
	Init  string // for ghost fields: name of the real field whose value initialises it in literals
	Sel   string // SMT selector name
}

type structInfo struct {
	Sort   string
	Ctor   string
	Fields []fieldInfo
	GoType types.Type
	Opaque bool
}

type Registry struct {
	fieldAlias map[string]map[string]string // struct sort -> contract field name -> current field name (renamed fields)
	curDefs    map[string]string            // definitions of the named terms (t_n) of the function being verified
	decls      []string                     // datatype declarations in dependency order
	sorts      map[string]string            // type key -> sort
	structs    map[string]*structInfo
	ghost      map[string][]fieldInfo // qualified struct name -> ghost fields
	inProgress map[string]bool
	typeIDs    map[string]int
	typeByID   map[int]types.Type
	ifaceAs    map[string]types.Type // interface type string -> pointer type it is modelled as
	typeAs     map[string]types.Type // concrete (library) struct type -> ghost struct it is modelled as
	unboxFns   map[string]bool
	uninterp   []string // declare-fun lines
	axioms     []string
	strConsts  map[string]string // go string value -> smt constant
	strOrder   []string
}

func newRegistry() *Registry {
	r := &Registry{sorts: map[string]string{}, structs: map[string]*structInfo{}, ghost: map[string][]fieldInfo{},
		inProgress: map[string]bool{}, typeIDs: map[string]int{}, typeByID: map[int]types.Type{}, ifaceAs: map[string]types.Type{}, typeAs: map[string]types.Type{}, unboxFns: map[string]bool{}, strConsts: map[string]string{}}
	return r
}

func sanitize(s string) string {
	var b strings.Builder
	for _, c := range s {
		switch {
		case c >= 'a' && c <= 'z', c >= 'A' && c <= 'Z', c >= '0' && c <= '9', c == '_':
			b.WriteRune(c)
		case c == '*':
			b.WriteString("P")
		case c == '[' || c == ']':
			b.WriteString("L")
		default:
			b.WriteRune('_')
		}
	}
	return b.String()
}

func isInteger(t types.Type) bool {
	b, ok := t.Underlying().(*types.Basic)
	return ok && b.Info()&types.IsInteger != 0
}
func isBoolean(t types.Type) bool {
	b, ok := t.Underlying().(*types.Basic)
	return ok && b.Info()&types.IsBoolean != 0
}
func isString(t types.Type) bool {
	b, ok := t.Underlying().(*types.Basic)
	return ok && b.Info()&types.IsString != 0
}
func isFloat(t types.Type) bool {
	b, ok := t.Underlying().(*types.Basic)
	return ok && b.Info()&types.IsFloat != 0
}
func isInterface(t types.Type) bool {
	_, ok := t.Underlying().(*types.Interface)
	return ok
}
func isPointer(t types.Type) bool {
	_, ok := t.Underlying().(*types.Pointer)
	return ok
}

// intRange returns (lo, hi, bits, signed) for a Go integer type; for the spec integer
// type ok is false.
func intRange(t types.Type) (lo, hi *big.Int, bits int, signed bool, ok bool) {
	b, isb := t.Underlying().(*types.Basic)
	if !isb || b.Info()&types.IsInteger == 0 {
		return nil, nil, 0, false, false
	}
	switch b.Kind() {
	case types.Int8:
		bits, signed = 8, true
	case types.Int16:
		bits, signed = 16, true
	case types.Int32:
		bits, signed = 32, true
	case types.Int64, types.Int:
		bits, signed = 64, true
	case types.Uint8:
		bits = 8
	case types.Uint16:
		bits = 16
	case types.Uint32:
		bits = 32
	case types.Uint64, types.Uint, types.Uintptr:
		bits = 64
	default:
		return nil, nil, 0, false, false // untyped
	}
	one := big.NewInt(1)
	if signed {
		hi = new(big.Int).Sub(new(big.Int).Lsh(one, uint(bits-1)), one)
		lo = new(big.Int).Neg(new(big.Int).Lsh(one, uint(bits-1)))
	} else {
		lo = big.NewInt(0)
		hi = new(big.Int).Sub(new(big.Int).Lsh(one, uint(bits)), one)
	}
	return lo, hi, bits, signed, true
}

func pow2(n int) string { return new(big.Int).Lsh(big.NewInt(1), uint(n)).String() }

func (r *Registry) typeKey(t types.Type) string {
	return types.TypeString(t, nil)
}

// TypeID gives a stable small integer for a dynamic type held in an interface.
var aliasWord = regexp.MustCompile(`\b(byte|rune)\b`)

func (r *Registry) TypeID(t types.Type) int {
	// byte and uint8 (rune and int32) are the same type
	k := aliasWord.ReplaceAllStringFunc(r.typeKey(t), func(w string) string {
		if w == "byte" {
			return "uint8"
		}
		return "int32"
	})
	if id, ok := r.typeIDs[k]; ok {
		return id
	}
	id := len(r.typeIDs) + 1
	r.typeIDs[k] = id
	r.typeByID[id] = t
	return id
}

func (r *Registry) strConst(v string) string {
	if c, ok := r.strConsts[v]; ok {
		return c
	}
	c := fmt.Sprintf("strc_%d", len(r.strConsts))
	r.strConsts[v] = c
	r.strOrder = append(r.strOrder, v)
	return c
}

const anyDecl = `(declare-datatypes ((Any 0)) (((any_nil) (any_int (any_ty Int) (any_iv Int)) (any_bool (any_bv Bool)) (any_str (any_sty Int) (any_sv Str)) (any_bytes (any_bty Int) (any_bs Sl_Int)) (any_other (any_oty Int) (any_oid Int)))))`

// SortOf maps a Go type to an SMT sort, registering datatypes on demand.
func (r *Registry) SortOf(t types.Type) string {
	if t == nil {
		return "Int"
	}
	key := r.typeKey(t)
	if s, ok := r.sorts[key]; ok {
		return s
	}
	if r.inProgress[key] {
		panic(translateErr("recursive type " + key))
	}
	r.inProgress[key] = true
	defer delete(r.inProgress, key)
	s := r.sortOf1(t, key)
	r.sorts[key] = s
	return s
}

type translateErr string

func (r *Registry) declOnce(sort, decl string) {
	for _, d := range r.decls {
		if d == decl {
			return
		}
	}
	r.decls = append(r.decls, decl)
}

func (r *Registry) sliceSort(elem string) string {
	name := "Sl_" + sanitize(elem)
	r.declOnce(name, fmt.Sprintf("(declare-datatypes ((%s 0)) (((mk_%s (arr_%s (Array Int %s)) (off_%s Int) (len_%s Int) (cap_%s Int)))))", name, name, name, elem, name, name, name))
	return name
}

func (r *Registry) sortOf1(t types.Type, key string) string {
	if as, ok := r.ifaceAs[key]; ok {
		return r.SortOf(as)
	}
	if as, ok := r.typeAs[key]; ok {
		return r.SortOf(as)
	}
	if n, ok := t.(*types.Named); ok {
		if _, isStruct := n.Underlying().(*types.Struct); isStruct {
			return r.structSort(n, key)
		}
		if _, isIface := n.Underlying().(*types.Interface); isIface {
			r.SortOf(types.NewSlice(types.Typ[types.Uint8]))
			r.declOnce("Any", anyDecl)
			return "Any"
		}
		return r.SortOf(n.Underlying())
	}
	if a, ok := t.(*types.Alias); ok {
		return r.sortOf1(types.Unalias(a), key)
	}
	switch u := t.(type) {
	case *types.Basic:
		switch {
		case u.Info()&types.IsInteger != 0:
			return "Int"
		case u.Info()&types.IsBoolean != 0:
			return "Bool"
		case u.Info()&types.IsString != 0:
			return "Str"
		case u.Info()&types.IsFloat != 0:
			return "Int" // bit pattern, never computed with
		case u.Kind() == types.UntypedNil:
			return "Int"
		case u.Kind() == types.UnsafePointer:
			return "Int"
		}
	case *types.Slice:
		return r.sliceSort(r.SortOf(u.Elem()))
	case *types.Array:
		return "(Array Int " + r.SortOf(u.Elem()) + ")"
	case *types.Pointer:
		es := r.SortOf(u.Elem())
		name := "Ptr_" + sanitize(es)
		r.declOnce(name, fmt.Sprintf("(declare-datatypes ((%s 0)) (((nil_%s) (ref_%s (deref_%s %s)))))", name, name, name, name, es))
		return name
	case *types.Struct:
		return r.structSort(t, key)
	case *types.Map:
		ks, vs := r.SortOf(u.Key()), r.SortOf(u.Elem())
		name := "Map_" + sanitize(ks) + "_" + sanitize(vs)
		r.declOnce(name, fmt.Sprintf("(declare-datatypes ((%s 0)) (((mk_%s (isnil_%s Bool) (dom_%s (Array %s Bool)) (val_%s (Array %s %s)) (size_%s Int)))))", name, name, name, name, ks, name, ks, vs, name))
		return name
	case *types.Interface:
		r.SortOf(types.NewSlice(types.Typ[types.Uint8]))
		r.declOnce("Any", anyDecl)
		return "Any"
	case *types.Chan:
		return "Int"
	case *types.Signature:
		return "Int"
	case *types.Tuple:
		return "Int"
	}
	panic(translateErr("unsupported type " + key))
}

// qualName gives pkgname.Type for named types.
func qualName(t types.Type) string {
	if n, ok := t.(*types.Named); ok {
		if n.Obj().Pkg() != nil {
			return n.Obj().Pkg().Name() + "." + n.Obj().Name()
		}
		return n.Obj().Name()
	}
	return types.TypeString(t, nil)
}

func (r *Registry) structSort(t types.Type, key string) string {
	st := t.Underlying().(*types.Struct)
	name := "T_" + sanitize(qualName(t))
	si := &structInfo{Sort: name, Ctor: "mk_" + name, GoType: t}
	q := qualName(t)
	isRepo := false
	if n, ok := t.(*types.Named); ok && n.Obj().Pkg() != nil && strings.HasPrefix(n.Obj().Pkg().Path(), repoModule) {
		isRepo = true
	}
	if _, ok := t.(*types.Named); !ok {
		isRepo = true // anonymous struct
	}
	if n, ok := t.(*types.Named); ok && n.Obj().Pkg() != nil && n.Obj().Pkg().Path() == "ghost" {
		isRepo = true
	}
	if isRepo {
		for i := 0; i < st.NumFields(); i++ {
			f := st.Field(i)
			si.Fields = append(si.Fields, fieldInfo{Name: f.Name(), Type: f.Type()})
		}
	} else {
		si.Opaque = true
	}
	for _, g := range r.ghost[q] {
		si.Fields = append(si.Fields, g)
	}
	if len(si.Fields) == 0 {
		si.Fields = append(si.Fields, fieldInfo{Name: "oid__", Type: tInt, Ghost: true})
	}
	var fs []string
	for i := range si.Fields {
		f := &si.Fields[i]
		f.Sel = fmt.Sprintf("%s_%s", name, sanitize(f.Name))
		fs = append(fs, fmt.Sprintf("(%s %s)", f.Sel, r.SortOf(f.Type)))
	}
	r.decls = append(r.decls, fmt.Sprintf("(declare-datatypes ((%s 0)) (((%s %s))))", name, si.Ctor, strings.Join(fs, " ")))
	r.structs[key] = si
	return name
}

func (r *Registry) StructInfo(t types.Type) *structInfo {
	if as, ok := r.typeAs[r.typeKey(t)]; ok {
		return r.StructInfo(as)
	}
	r.SortOf(t)
	if n, ok := t.(*types.Named); ok {
		return r.structs[r.typeKey(n)]
	}
	return r.structs[r.typeKey(t)]
}

func (r *Registry) Prelude() string {
	var b strings.Builder
	b.WriteString("(declare-sort Str 0)\n(declare-fun strlen (Str) Int)\n(assert (forall ((s Str)) (>= (strlen s) 0)))\n")
	for _, d := range r.decls {
		b.WriteString(d)
		b.WriteString("\n")
	}
	for _, d := range r.uninterp {
		b.WriteString(d)
		b.WriteString("\n")
	}
	// dynamic type ids and the representation class of each (1 integer/float, 2 string, 3 byte slice, 4 other)
	b.WriteString("(declare-fun tykind (Int) Int)\n")
	ids := make([]int, 0, len(r.typeByID))
	for id := range r.typeByID {
		ids = append(ids, id)
	}
	sort.Ints(ids)
	for _, id := range ids {
		b.WriteString(fmt.Sprintf("(assert (= (tykind %d) %d))\n", id, tyKind(r.typeByID[id])))
	}
	return b.String()
}

// ---------------------------------------------------------------------------
// Value helpers

func (r *Registry) sliceParts(t Term) (sort, arr, off, ln, cp string) {
	sort = r.SortOf(t.T)
	return sort, "(arr_" + sort + " " + t.S + ")", "(off_" + sort + " " + t.S + ")", "(len_" + sort + " " + t.S + ")", "(cap_" + sort + " " + t.S + ")"
}

func (r *Registry) mkSlice(t types.Type, arr, off, ln, cp string) Term {
	sort := r.SortOf(t)
	return Term{S: fmt.Sprintf("(mk_%s %s %s %s %s)", sort, arr, off, ln, cp), T: t}
}

// zero value of a Go type
func (r *Registry) Zero(t types.Type) Term {
	s := r.SortOf(t)
	if as, ok := r.ifaceAs[r.typeKey(t)]; ok {
		z := r.Zero(as)
		z.T = t
		return z
	}
	switch u := t.Underlying().(type) {
	case *types.Basic:
		switch {
		case u.Info()&types.IsBoolean != 0:
			return Term{S: "false", T: t}
		case u.Info()&types.IsString != 0:
			e := ""
			return Term{S: r.strConst(""), T: t, Const: &e}
		}
		return Term{S: "0", T: t}
	case *types.Slice:
		es := r.SortOf(u.Elem())
		return r.mkSlice(t, r.constArray(es, r.Zero(u.Elem()).S), "0", "0", "0")
	case *types.Array:
		return Term{S: r.constArray(r.SortOf(u.Elem()), r.Zero(u.Elem()).S), T: t}
	case *types.Pointer:
		return Term{S: "nil_" + s, T: t}
	case *types.Struct:
		si := r.StructInfo(t)
		var fs []string
		for _, f := range si.Fields {
			fs = append(fs, r.Zero(f.Type).S)
		}
		return Term{S: "(" + si.Ctor + " " + strings.Join(fs, " ") + ")", T: t}
	case *types.Map:
		ks, vs := r.SortOf(u.Key()), r.SortOf(u.Elem())
		return Term{S: fmt.Sprintf("(mk_%s true ((as const (Array %s Bool)) false) ((as const (Array %s %s)) %s) 0)", s, ks, ks, vs, r.Zero(u.Elem()).S), T: t}
	case *types.Interface:
		return Term{S: "any_nil", T: t}
	}
	return Term{S: "0", T: t}
}

func (r *Registry) constArray(elemSort, v string) string {
	return fmt.Sprintf("((as const (Array Int %s)) %s)", elemSort, v)
}

// fieldOf selects a field of a struct-valued term (auto-dereferencing is done by the caller).
func (r *Registry) fieldOf(t Term, name string) (Term, bool) {
	si := r.StructInfo(t.T)
	if si == nil {
		return Term{}, false
	}
	if a, ok := r.fieldAlias[si.Sort][name]; ok {
		name = a // the field was renamed after the contracts were written
	}
	for i, f := range si.Fields {
		if f.Name == name {
			if v, ok := r.knownField(t.S, si.Ctor, i, len(si.Fields), 0); ok {
				return Term{S: v, T: f.Type}, true
			}
			return Term{S: "(" + f.Sel + " " + t.S + ")", T: f.Type}, true
		}
	}
	return Term{}, false
}

// resolve follows the definitions of named terms (t_n = term) of the function being verified.
func (r *Registry) resolve(s string) string {
	for i := 0; i < 64; i++ {
		d, ok := r.curDefs[s]
		if !ok {
			return s
		}
		s = d
	}
	return s
}

// knownField: component i of a struct term whose definition is a constructor application (or an ite of such):
// selections are resolved when the term is built instead of being left to the solver, which keeps fields that a long
// chain of updates never touched identical to the original.
func (r *Registry) knownField(s, ctor string, i, n, depth int) (string, bool) {
	if depth > 80 {
		return "", false
	}
	s = r.resolve(s)
	pre := "(" + ctor + " "
	if strings.HasPrefix(s, pre) && strings.HasSuffix(s, ")") {
		args := splitSexp(s[len(pre) : len(s)-1])
		if len(args) == n {
			return args[i], true
		}
		return "", false
	}
	if strings.HasPrefix(s, "(ite ") && strings.HasSuffix(s, ")") {
		parts := splitSexp(s[5 : len(s)-1])
		if len(parts) == 3 {
			a, okA := r.knownField(parts[1], ctor, i, n, depth+1)
			b, okB := r.knownField(parts[2], ctor, i, n, depth+1)
			if okA && okB {
				if a == b {
					return a, true
				}
				if len(a)+len(b) < 400 {
					return "(ite " + parts[0] + " " + a + " " + b + ")", true
				}
			}
		}
	}
	return "", false
}

// withField returns the struct value t with field name replaced by v.
func (r *Registry) withField(t Term, name string, v string) Term {
	si := r.StructInfo(t.T)
	if a, ok := r.fieldAlias[si.Sort][name]; ok {
		name = a
	}
	var fs []string
	found := false
	for i, f := range si.Fields {
		if f.Name == name {
			fs = append(fs, v)
			found = true
		} else if kv, ok := r.knownField(t.S, si.Ctor, i, len(si.Fields), 0); ok && len(kv) < 300 {
			fs = append(fs, kv)
		} else {
			fs = append(fs, "("+f.Sel+" "+t.S+")")
		}
	}
	if !found {
		panic(translateErr("no field " + name + " in " + si.Sort))
	}
	return Term{S: "(" + si.Ctor + " " + strings.Join(fs, " ") + ")", T: t.T}
}

func (r *Registry) deref(t Term) Term {
	p := t.T.Underlying().(*types.Pointer)
	s := r.SortOf(t.T)
	// simplify (deref (ref x)), also through the definition of a named term
	pre := "(ref_" + s + " "
	if strings.HasPrefix(t.S, pre) && balanced(t.S[len(pre):len(t.S)-1]) {
		return Term{S: t.S[len(pre) : len(t.S)-1], T: p.Elem()}
	}
	if d := r.resolve(t.S); d != t.S && strings.HasPrefix(d, pre) && balanced(d[len(pre):len(d)-1]) {
		inner := d[len(pre) : len(d)-1]
		if len(inner) < 200 {
			return Term{S: inner, T: p.Elem()}
		}
	}
	return Term{S: "(deref_" + s + " " + t.S + ")", T: p.Elem()}
}
func (r *Registry) ref(t Term, pt types.Type) Term {
	s := r.SortOf(pt)
	return Term{S: "(ref_" + s + " " + t.S + ")", T: pt}
}
func (r *Registry) isNil(t Term) string {
	s := r.SortOf(t.T)
	switch t.T.Underlying().(type) {
	case *types.Pointer:
		return "((_ is nil_" + s + ") " + t.S + ")"
	case *types.Interface:
		if _, ok := r.ifaceAs[r.typeKey(t.T)]; ok {
			return "((_ is nil_" + s + ") " + t.S + ")"
		}
		return "((_ is any_nil) " + t.S + ")"
	case *types.Slice:
		return "(and (= (len_" + s + " " + t.S + ") 0) (= (cap_" + s + " " + t.S + ") 0))"
	case *types.Map:
		return "(isnil_" + s + " " + t.S + ")"
	}
	return "false"
}

// rangeFact gives the constraints a value of Go type t always satisfies (one level deep
// for structs and pointers; array/slice elements get facts when selected).
func (r *Registry) rangeFact(t Term, depth int) string {
	if depth > 4 {
		return "true"
	}
	if as, ok := r.ifaceAs[r.typeKey(t.T)]; ok {
		return r.rangeFact(Term{S: t.S, T: as}, depth)
	}
	switch u := t.T.Underlying().(type) {
	case *types.Basic:
		if lo, hi, _, _, ok := intRange(t.T); ok {
			return "(and (<= " + bigLit(lo) + " " + t.S + ") (<= " + t.S + " " + bigLit(hi) + "))"
		}
		if u.Kind() == types.Float32 {
			return "(and (<= 0 " + t.S + ") (< " + t.S + " " + pow2(32) + "))"
		}
		if u.Kind() == types.Float64 {
			return "(and (<= 0 " + t.S + ") (< " + t.S + " " + pow2(64) + "))"
		}
	case *types.Slice:
		_ = u
		_, _, off, ln, cp := r.sliceParts(t)
		// a slice lives in the 48-bit user address space: cap * element size <= 2^48
		maxCap := "281474976710656"
		if sz := stdSizes.Sizeof(u.Elem()); sz > 1 {
			maxCap = new(big.Int).Div(new(big.Int).Lsh(big.NewInt(1), 48), big.NewInt(sz)).String()
		}
		return "(and (<= 0 " + off + ") (<= 0 " + ln + ") (<= " + ln + " " + cp + ") (<= " + cp + " " + maxCap + "))"
	case *types.Struct:
		si := r.StructInfo(t.T)
		var fs []string
		for _, f := range si.Fields {
			ft, _ := r.fieldOf(t, f.Name)
			fs = append(fs, r.rangeFact(ft, depth+1))
		}
		return and(fs...)
	case *types.Pointer:
		if _, ok := u.Elem().Underlying().(*types.Struct); ok {
			return implies(not(r.isNil(t)), r.rangeFact(r.deref(t), depth+1))
		}
		if _, ok := u.Elem().Underlying().(*types.Slice); ok {
			return implies(not(r.isNil(t)), r.rangeFact(r.deref(t), depth+1))
		}
		if _, ok := u.Elem().Underlying().(*types.Basic); ok {
			return implies(not(r.isNil(t)), r.rangeFact(r.deref(t), depth+1))
		}
	case *types.Map:
		s := r.SortOf(t.T)
		return "(>= (size_" + s + " " + t.S + ") 0)"
	case *types.Interface:
		if r.SortOf(t.T) == "Any" {
			x := t.S
			return "(and (=> ((_ is any_int) " + x + ") (= (tykind (any_ty " + x + ")) 1)) (=> ((_ is any_str) " + x + ") (= (tykind (any_sty " + x + ")) 2)) (=> ((_ is any_bytes) " + x + ") (= (tykind (any_bty " + x + ")) 3)) (=> ((_ is any_other) " + x + ") (= (tykind (any_oty " + x + ")) 4)))"
		}
	}
	return "true"
}

func tyKind(t types.Type) int {
	switch u := t.Underlying().(type) {
	case *types.Basic:
		switch {
		case u.Info()&types.IsInteger != 0, u.Info()&types.IsFloat != 0:
			return 1
		case u.Info()&types.IsString != 0:
			return 2
		}
	case *types.Slice:
		if b, ok := u.Elem().Underlying().(*types.Basic); ok && b.Kind() == types.Uint8 {
			return 3
		}
	}
	return 4
}

func sortedKeys(m map[string]string) []string {
	var ks []string
	for k := range m {
		ks = append(ks, k)
	}
	sort.Strings(ks)
	return ks
}
