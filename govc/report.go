package main

import (
	"encoding/json"
	"fmt"
	"os"
	"path/filepath"
	"sort"
	"strconv"
	"strings"
	"time"
)

type KnownFinding struct {
	Property   string `json:"property"`
	Obligation string `json:"obligation"`
	What       string `json:"what"`
	Defect     string `json:"defect,omitempty"`
}

type KnownFile struct {
	Findings []KnownFinding `json:"findings"`
	Fixed    []string       `json:"fixed"`
}

func loadKnown(verif string) *KnownFile {
	k := &KnownFile{}
	b, err := os.ReadFile(filepath.Join(verif, "known_findings.json"))
	if err == nil {
		json.Unmarshal(b, k)
	}
	return k
}

func rerunReplay(path string) int {
	b, err := os.ReadFile(path)
	if err != nil {
		fmt.Fprintln(os.Stderr, err)
		return 2
	}
	var rec ReplayRecord
	if err := json.Unmarshal(b, &rec); err != nil {
		fmt.Fprintln(os.Stderr, err)
		return 2
	}
	fmt.Printf("obligation: %s (%s)\n  %s\n  at %s\nverdict when recorded: %s — %s\n", rec.Obligation, rec.Kind, rec.Text, rec.Position, rec.Verdict, rec.Reason)
	if rec.Test == "" {
		fmt.Println("no replayable input; solver output:")
		fmt.Println(rec.SolverOut)
		return 1
	}
	out, cmd := runOverlayTest("/repo", rec.TestPkg, rec.Test, "TestVrfReplay")
	fmt.Println(cmd)
	fmt.Println(out)
	return 1
}

func writeLoadFailure(verif, prop string, err error) string {
	dir := filepath.Join(verif, "replays", prop)
	os.MkdirAll(dir, 0755)
	p := filepath.Join(dir, "load-failure.json")
	rec := ReplayRecord{Property: prop, Obligation: "load#translate", Kind: "translate", Verdict: "no-model", Reason: err.Error()}
	b, _ := json.MarshalIndent(rec, "", " ")
	os.WriteFile(p, b, 0644)
	return p
}

type Evidence struct {
	PropertyID  string                 `json:"property_id"`
	Tier        string                 `json:"tier"`
	Seed        int                    `json:"seed"`
	Level       string                 `json:"level"`
	Coverage    map[string]interface{} `json:"coverage"`
	Assumptions []string               `json:"assumptions"`
	WallS       float64                `json:"wall_s"`
	Violations  int                    `json:"violations"`
}

func (r *Runner) checkProperty(spec *PropSpec) int {
	res := r.run(spec)
	known := loadKnown(r.verif)
	knownByObl := map[string]KnownFinding{}
	for _, k := range known.Findings {
		if k.Property == spec.ID {
			knownByObl[k.Obligation] = k
		}
	}
	// clean old replays of this property
	os.RemoveAll(filepath.Join(r.verif, "replays", spec.ID))

	violations := 0
	knownPrinted := 0
	var violationLines []string
	byKind := map[string][2]int{}
	bySolver := map[string]int{}
	var samples []interface{}
	nObl, nOK := 0, 0
	boundedRun, boundedOK := 0, 0
	var boundedTexts []string
	covers, coverOK := 0, 0
	var failedNames []string
	for _, o := range res.obls {
		if o.Cover {
			covers++
			if o.OK() {
				coverOK++
			} else {
				// vacuity: a precondition/invariant/path that must be satisfiable is not
				violations++
				rec, path := r.replayObligation(spec.ID, o)
				_ = rec
				violationLines = append(violationLines, fmt.Sprintf("VIOLATION property=%s replay=%s no-failing-input-found", spec.ID, path))
				failedNames = append(failedNames, o.Name+" (vacuity)")
			}
			continue
		}
		if o.Kind == "bounded" {
			// a bounded cross-check is reported on its own and never counted among the proved obligations
			boundedRun++
			if o.OK() {
				boundedOK++
				boundedTexts = append(boundedTexts, o.Text)
				continue
			}
		} else {
			nObl++
		}
		c := byKind[o.Kind]
		c[0]++
		if o.OK() {
			nOK++
			c[1]++
			bySolver[o.Solver]++
			if len(samples) < 4 && !o.Trivial {
				samples = append(samples, map[string]interface{}{"obligation": o.Name, "text": o.Text, "at": o.Pos, "status": "discharged", "solver": o.Solver, "ms": o.TimeMs})
			}
		} else if k, isKnown := knownByObl[o.Name]; isKnown {
			fmt.Printf("KNOWN-FINDING: property=%s %s: %s\n", spec.ID, o.Name, k.What)
			knownPrinted++
			failedNames = append(failedNames, o.Name+" (known finding)")
		} else {
			violations++
			rec, path := r.replayObligation(spec.ID, o)
			line := fmt.Sprintf("VIOLATION property=%s replay=%s", spec.ID, path)
			if rec.Verdict != "confirmed" {
				line += " no-failing-input-found"
			}
			violationLines = append(violationLines, line)
			failedNames = append(failedNames, o.Name)
			fmt.Printf("  failed obligation %s [%s] at %s: %s — replay %s (%s)\n", o.Name, o.Status, o.Pos, truncate(o.Text, 200), rec.Verdict, truncate(rec.Reason, 300))
		}
		byKind[o.Kind] = c
	}
	for _, t := range res.translate {
		violations++
		dir := filepath.Join(r.verif, "replays", spec.ID)
		os.MkdirAll(dir, 0755)
		fn := strings.SplitN(t, ":", 2)[0]
		path := filepath.Join(dir, sanitize(fn)+"_translate.json")
		rec := ReplayRecord{Property: spec.ID, Obligation: fn + "#translate", Kind: "translate", Function: fn, Verdict: "no-model", Reason: t}
		b, _ := json.MarshalIndent(rec, "", " ")
		os.WriteFile(path, b, 0644)
		violationLines = append(violationLines, fmt.Sprintf("VIOLATION property=%s replay=%s no-failing-input-found", spec.ID, path))
		failedNames = append(failedNames, fn+"#translate")
		fmt.Printf("  translate failure: %s\n", t)
	}
	// known findings that no longer fail are reported (they suppress nothing)
	for name := range knownByObl {
		found := false
		for _, o := range res.obls {
			if o.Name == name && !o.OK() {
				found = true
			}
		}
		if !found {
			fmt.Printf("note: known finding %s no longer fails; move it to \"fixed\" in known_findings.json\n", name)
		}
	}
	if nObl == 0 {
		violations++
		violationLines = append(violationLines, fmt.Sprintf("VIOLATION property=%s replay=%s no-failing-input-found", spec.ID, writeLoadFailure(r.verif, spec.ID, fmt.Errorf("zero obligations generated"))))
	}
	// thorough tier: the facts the tool evaluated itself (ground obligations) are checked again at run time on the
	// compiled package, and the hand-written witness tests of the contracts under this property are run
	var cross map[string]interface{}
	if r.tier == "thorough" {
		var lines []string
		cross, lines = r.crossChecks(spec.ID, res)
		violations += len(lines)
		violationLines = append(violationLines, lines...)
	}

	level := spec.Level
	if level == "" {
		level = "proof"
	}
	if knownPrinted > 0 && level == "proof" {
		level = "other"
	}
	var funcs []string
	usedExtern := map[string]bool{}
	inlinedSet := map[string]bool{}
	assumedSet := map[string]bool{}
	for _, fc := range res.ctxs {
		funcs = append(funcs, fc.funcShort())
		for k := range fc.usedContracts {
			if c := r.w.Contracts[k]; c != nil && c.Trusted {
				usedExtern[k] = true
			}
			if strings.HasPrefix(k, "inlined:") {
				inlinedSet[shortKey(strings.TrimPrefix(k, "inlined:"))] = true
			}
			if strings.HasPrefix(k, "assumed: ") {
				assumedSet[strings.TrimPrefix(k, "assumed: ")] = true
			}
		}
	}
	inlined := []string{}
	for k := range inlinedSet {
		inlined = append(inlined, k)
	}
	sort.Strings(inlined)
	var trustedClauses []string
	for _, fc := range res.ctxs {
		if fc.contract != nil {
			for _, e := range fc.contract.Ensures {
				if strings.HasPrefix(e.Tag, "trusted") || fc.contract.Opts["trustpost"] != "" {
					trustedClauses = append(trustedClauses, "assumed postcondition of "+fc.funcShort()+": "+e.Text)
				}
			}
		}
	}
	var externs []string
	for k := range usedExtern {
		externs = append(externs, k)
	}
	sort.Strings(externs)
	var assumedFacts []string
	for k := range assumedSet {
		assumedFacts = append(assumedFacts, k)
	}
	sort.Strings(assumedFacts)
	trustedClauses = append(trustedClauses, assumedFacts...)
	// axioms in scope of the verified functions: global ones always, "local." ones for functions of their package
	pkgsSeen := map[string]bool{}
	for _, fc := range res.ctxs {
		if fc.pkg != nil {
			pkgsSeen[fc.pkg.PkgPath] = true
		}
	}
	for _, a := range r.w.Axioms {
		if strings.HasPrefix(a.Name, "local.") && (a.Pkg == nil || !pkgsSeen[a.Pkg.PkgPath]) {
			continue
		}
		if strings.HasPrefix(a.Name, "local.env.") {
			continue // the generated definitions of the environment source (C17), summarised in the property's notes
		}
		trustedClauses = append(trustedClauses, "axiom "+a.Name+" (a definition or an assumed fact, part of every query in its scope): "+strings.TrimSpace(a.Text[strings.Index(a.Text, ":")+1:]))
	}
	kinds := map[string]interface{}{}
	for k, c := range byKind {
		kinds[k] = map[string]int{"obligations": c[0], "discharged": c[1]}
	}
	trusted := []string{"govc VC generator (this repository, /verif/govc): translation of the Go subset to SMT-LIB", "SMT solvers: z3 5.1.0 (z3-new), z3 4.8.12, cvc5 1.0", "Go type checker (go/types) and golang.org/x/tools/go/packages v0.29.0"}
	for _, e := range externs {
		if c := r.w.Contracts[e]; c != nil && c.Opts["default"] != "" {
			trusted = append(trusted, "assumed default contract (arbitrary results, pointees of arguments may change, no panic, no effect on the repository's package variables): "+e)
			continue
		}
		trusted = append(trusted, "assumed contract: "+e)
	}
	expl := fmt.Sprintf("%d proof obligations generated from the typed AST of %d functions in /repo's working tree and their contracts; %d discharged (unsat) by SMT; %d vacuity covers/canaries checked satisfiable; %d known findings; %d violations.", nObl, len(funcs), nOK, coverOK, knownPrinted, violations)
	if spec.Note != "" {
		expl += " " + spec.Note
	}
	ev := &Evidence{PropertyID: spec.ID, Tier: r.tier, Seed: seedFromEnv(), Level: level, WallS: time.Since(r.t0).Seconds(), Violations: violations,
		Coverage: map[string]interface{}{
			"obligations": nObl, "discharged": nOK, "checker_cmd": "/verif/bin/check " + spec.ID + " " + r.tier,
			"trusted_base": trusted, "samples": samples, "explanation": expl,
			"functions_under_contract": funcs, "by_kind": kinds, "by_backend": bySolver, "solver_ms_total": res.solverMs,
			"vacuity_covers": covers, "vacuity_covers_sat": coverOK, "known_findings_printed": knownPrinted, "failed": failedNames,
			"load_ms": r.loadMs, "functions_not_verified": res.skipped, "functions_executed_in_place": inlined,
		},
		Assumptions: append(append(append([]string{}, spec.Assume...), trustedClauses...), externs...),
	}
	if len(samples) == 0 {
		ev.Coverage["samples"] = []interface{}{"(no non-trivial obligation discharged)"}
	}
	if cross != nil {
		ev.Coverage["runtime_cross_checks"] = cross
	}
	if boundedRun > 0 {
		ev.Coverage["bounded_checks"] = map[string]interface{}{"run": boundedRun, "held": boundedOK, "what": boundedTexts, "note": "bounded: not counted among the obligations above"}
	}
	os.MkdirAll(filepath.Join(r.verif, "evidence"), 0755)
	b, _ := json.MarshalIndent(ev, "", " ")
	os.WriteFile(filepath.Join(r.verif, "evidence", spec.ID+".json"), append(b, '\n'), 0644)

	if r.verbose {
		r.printSummary(res)
	}
	fmt.Printf("%s %s: functions=%d obligations=%d discharged=%d covers=%d/%d known=%d violations=%d wall=%.1fs\n", spec.ID, r.tier, len(funcs), nObl, nOK, coverOK, covers, knownPrinted, violations, time.Since(r.t0).Seconds())
	for _, l := range violationLines {
		fmt.Println(l)
	}
	if violations > 0 {
		return 1
	}
	return 0
}

func seedFromEnv() int {
	n, _ := strconv.Atoi(os.Getenv("VERIF_SEED"))
	return n
}

// crossChecks (thorough tier) re-establishes on the real, compiled package what the tool decided by reading the
// sources: every ground obligation that has a run-time form is evaluated in an injected test (batched), and every
// witness test attached to a contract of this property is run. A disagreement is a violation with the run's output
// as the failing input.
func (r *Runner) crossChecks(prop string, res *runResult) (map[string]interface{}, []string) {
	type caseT struct {
		name, body string
	}
	byPkg := map[string][]caseT{}
	pkgName := map[string]string{}
	for _, o := range res.obls {
		if o.GroundTest == "" || o.GroundTest == "-" || o.fc == nil || o.fc.pkg == nil || !o.OK() {
			continue
		}
		byPkg[o.fc.pkg.PkgPath] = append(byPkg[o.fc.pkg.PkgPath], caseT{o.Name, o.GroundTest})
		pkgName[o.fc.pkg.PkgPath] = o.fc.pkg.Types.Name()
	}
	var lines []string
	ran, held := 0, 0
	failures := []string{}
	record := func(name, reason, test, out, cmd string) {
		dir := filepath.Join(r.verif, "replays", prop)
		os.MkdirAll(dir, 0755)
		path := filepath.Join(dir, sanitize(name)+"_runtime.json")
		rec := ReplayRecord{Property: prop, Obligation: name, Kind: "runtime-cross-check", Verdict: "confirmed", Reason: reason, Test: test, Output: truncate(out, 3000), Command: cmd}
		b, _ := json.MarshalIndent(rec, "", " ")
		os.WriteFile(path, b, 0644)
		lines = append(lines, fmt.Sprintf("VIOLATION property=%s replay=%s", prop, path))
		failures = append(failures, name+": "+reason)
		fmt.Printf("  run-time cross-check failed: %s: %s\n", name, reason)
	}
	for pkg, cases := range byPkg {
		for start := 0; start < len(cases); start += 150 {
			end := start + 150
			if end > len(cases) {
				end = len(cases)
			}
			var b strings.Builder
			b.WriteString("package " + pkgName[pkg] + "\n\nimport (\n\t\"fmt\"\n\t\"testing\"\n)\n\nfunc TestVrfReplay(t *testing.T) {\n")
			for _, c := range cases[start:end] {
				b.WriteString("\tfunc() {\n\t\tfmt.Println(\"VRF-CASE " + c.name + "\")\n")
				if pkgName[pkg] == "ipfix" {
					b.WriteString("\t\tsaved := InfoModel\n\t\tdefer func() { InfoModel = saved }()\n")
				}
				b.WriteString("\t\t" + strings.ReplaceAll(c.body, "\n", "\n\t") + "\n\t}()\n")
			}
			b.WriteString("}\n")
			out, cmd := runOverlayTest(r.w.RepoDir, pkg, b.String(), "TestVrfReplay")
			cur := ""
			seen := map[string]bool{}
			for _, l := range strings.Split(out, "\n") {
				l = strings.TrimSpace(l)
				if strings.HasPrefix(l, "VRF-CASE ") {
					cur = strings.TrimPrefix(l, "VRF-CASE ")
				} else if strings.HasPrefix(l, "VRF-RESULT HOLDS") && cur != "" {
					seen[cur] = true
					ran++
					held++
				} else if strings.HasPrefix(l, "VRF-RESULT VIOLATED") && cur != "" {
					seen[cur] = true
					ran++
					record(cur, "the compiled package disagrees with the fact the tool read from the sources: "+strings.TrimPrefix(l, "VRF-RESULT VIOLATED "), b.String(), out, cmd)
				}
			}
			missing := 0
			for _, c := range cases[start:end] {
				if !seen[c.name] {
					missing++
				}
			}
			if missing > 0 {
				record(fmt.Sprintf("%s.batch%d", pkgName[pkg], start/150), fmt.Sprintf("%d run-time checks produced no result (the injected test did not build or did not finish)", missing), b.String(), out, cmd)
			}
		}
	}
	// witness tests of the contracts under this property
	witness, witnessOK := 0, 0
	done := map[string]bool{}
	for _, fc := range res.ctxs {
		if fc.contract == nil || fc.contract.Opts["replaytest"] == "" || fc.pkg == nil {
			continue
		}
		fs := strings.Fields(fc.contract.Opts["replaytest"])
		for i := 0; i+1 < len(fs); i += 2 {
			file := fs[i+1]
			if done[file] {
				continue
			}
			done[file] = true
			src, err := os.ReadFile(filepath.Join(r.verif, "replaytests", file))
			if err != nil {
				continue
			}
			witness++
			out, cmd := runOverlayTest(r.w.RepoDir, fc.pkg.PkgPath, string(src), "TestVrfReplay")
			switch {
			case strings.Contains(out, "VRF-RESULT VIOLATED"):
				reason := "witness test shows the violation"
				for _, l := range strings.Split(out, "\n") {
					if strings.HasPrefix(strings.TrimSpace(l), "VRF-RESULT VIOLATED") {
						reason = strings.TrimPrefix(strings.TrimSpace(l), "VRF-RESULT VIOLATED ")
					}
				}
				record(fc.funcShort()+"#witness."+file, reason, string(src), out, cmd)
			case strings.Contains(out, "VRF-RESULT HOLDS"):
				witnessOK++
			}
		}
	}
	// the assumed library contracts, exercised on the real library (bounded)
	externRun, externOK := 0, 0
	if src, err := os.ReadFile(filepath.Join(r.verif, "replaytests", "extern_contracts.go")); err == nil {
		externRun = 1
		out, cmd := runOverlayTest(r.w.RepoDir, repoModule+"/reader", string(src), "TestVrfReplay")
		switch {
		case strings.Contains(out, "VRF-RESULT HOLDS"):
			externOK = 1
		default:
			reason := "the cross-check of the assumed library contracts did not hold or did not run"
			for _, l := range strings.Split(out, "\n") {
				if strings.HasPrefix(strings.TrimSpace(l), "VRF-RESULT VIOLATED") {
					reason = strings.TrimPrefix(strings.TrimSpace(l), "VRF-RESULT VIOLATED ")
				}
			}
			record("extern.contracts#crosscheck", reason, string(src), out, cmd)
		}
	}
	return map[string]interface{}{
		"extern_contract_crosscheck_run": externRun, "extern_contract_crosscheck_held": externOK,
		"ground_facts_rechecked_at_run_time": ran, "ground_facts_held": held,
		"witness_tests_run": witness, "witness_tests_held": witnessOK, "failures": failures,
		"rule": "bounded: one execution of the compiled package per ground fact / witness test; not part of the proof, a cross-check of the tool's reading of the sources",
	}, lines
}
