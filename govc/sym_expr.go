package main

// Symbolic evaluation of Go expressions (exact machine semantics over mathematical Int).

import (
	"fmt"
	"go/ast"
	"go/constant"
	"go/token"
	"go/types"
	"golang.org/x/tools/go/packages"
	"math/big"
	"strconv"
	"strings"
)

func (fc *FuncCtx) reg() *Registry { return fc.w.Reg }

func (fc *FuncCtx) typeOf(e ast.Expr) types.Type {
	if tv, ok := fc.info.Types[e]; ok {
		return tv.Type
	}
	if id, ok := e.(*ast.Ident); ok {
		if o := fc.info.ObjectOf(id); o != nil {
			return o.Type()
		}
	}
	return nil
}

// wrap brings a mathematical result back into the range of Go type t.
// single is true when the value is known to lie within one modulus of the range.
func wrapInt(v string, t types.Type, single bool) string {
	lo, hi, bits, signed, ok := intRange(t)
	if !ok {
		return v
	}
	m := pow2(bits)
	if single {
		return "(ite (< " + v + " " + bigLit(lo) + ") (+ " + v + " " + m + ") (ite (> " + v + " " + bigLit(hi) + ") (- " + v + " " + m + ") " + v + "))"
	}
	if !signed {
		return "(mod " + v + " " + m + ")"
	}
	half := pow2(bits - 1)
	return "(- (mod (+ " + v + " " + half + ") " + m + ") " + half + ")"
}

func isLiteral(s string) (*big.Int, bool) {
	if strings.HasPrefix(s, "(- ") && strings.HasSuffix(s, ")") {
		if v, ok := new(big.Int).SetString(s[3:len(s)-1], 10); ok {
			return v.Neg(v), true
		}
		return nil, false
	}
	v, ok := new(big.Int).SetString(s, 10)
	return v, ok
}

func (fc *FuncCtx) constOf(e ast.Expr) (Term, bool) {
	tv, ok := fc.info.Types[e]
	if !ok || tv.Value == nil {
		return Term{}, false
	}
	t := tv.Type
	if tv.Value.Kind() == constant.Float && !isFloat(t) {
		return Term{}, false
	}
	if tv.Value.Kind() == constant.Float {
		f, _ := constant.Float64Val(tv.Value)
		// bit pattern of the constant
		var bits uint64
		if b, ok := t.Underlying().(*types.Basic); ok && b.Kind() == types.Float32 {
			bits = uint64(f32bits(float32(f)))
		} else {
			bits = f64bits(f)
		}
		return Term{S: strconv.FormatUint(bits, 10), T: t}, true
	}
	return fc.w.constTerm(tv.Value, t), true
}

// eval evaluates an expression to a single value.
func (fc *FuncCtx) eval(st *State, e ast.Expr) Term {
	t := fc.eval1(st, e)
	if t.Bits == 0 && t.T != nil {
		if _, _, bits, signed, ok := intRange(t.T); ok && !signed && bits < 64 {
			t.Bits = bits
		}
		if lit, ok := isLiteral(t.S); ok && lit.Sign() >= 0 && lit.BitLen() < 63 {
			t.Bits = lit.BitLen()
			if t.Bits == 0 {
				t.Bits = 1
			}
		}
	}
	return t
}

func (fc *FuncCtx) eval1(st *State, e ast.Expr) Term {
	if c, ok := fc.constOf(e); ok {
		return c
	}
	switch x := e.(type) {
	case *ast.ParenExpr:
		return fc.eval(st, x.X)
	case *ast.Ident:
		fc.ownUse(st, x)
		return fc.evalIdent(st, x)
	case *ast.BasicLit:
		fc.fail(e, "non-constant literal")
	case *ast.SelectorExpr:
		fc.ownUse(st, x)
		return fc.evalSelector(st, x)
	case *ast.StarExpr:
		p := fc.eval(st, x.X)
		fc.oblige(st, "panic.nilptr", "", not(fc.reg().isNil(p)), e, "dereference of possibly nil pointer "+exprStr(x.X))
		return fc.reg().deref(p)
	case *ast.UnaryExpr:
		return fc.evalUnary(st, x)
	case *ast.BinaryExpr:
		return fc.evalBinary(st, x)
	case *ast.IndexExpr:
		return fc.evalIndex(st, x, false)[0]
	case *ast.SliceExpr:
		return fc.evalSliceExpr(st, x)
	case *ast.CallExpr:
		rs := fc.evalCall(st, x)
		if len(rs) == 0 {
			return Term{S: "0", T: tInt}
		}
		return rs[0]
	case *ast.CompositeLit:
		return fc.evalCompositeLit(st, x)
	case *ast.TypeAssertExpr:
		return fc.evalTypeAssert(st, x, false)[0]
	case *ast.FuncLit:
		return Term{S: "0", T: fc.typeOf(e)}
	}
	fc.fail(e, "unsupported expression %T", e)
	return Term{}
}

func exprStr(e ast.Expr) string {
	switch x := e.(type) {
	case *ast.Ident:
		return x.Name
	case *ast.SelectorExpr:
		return exprStr(x.X) + "." + x.Sel.Name
	case *ast.StarExpr:
		return "*" + exprStr(x.X)
	case *ast.ParenExpr:
		return "(" + exprStr(x.X) + ")"
	case *ast.IndexExpr:
		return exprStr(x.X) + "[" + exprStr(x.Index) + "]"
	case *ast.CallExpr:
		return exprStr(x.Fun) + "(...)"
	case *ast.UnaryExpr:
		return x.Op.String() + exprStr(x.X)
	case *ast.BasicLit:
		return x.Value
	case *ast.BinaryExpr:
		return exprStr(x.X) + x.Op.String() + exprStr(x.Y)
	case *ast.SliceExpr:
		return exprStr(x.X) + "[:]"
	}
	return fmt.Sprintf("%T", e)
}

func (fc *FuncCtx) evalIdent(st *State, id *ast.Ident) Term {
	obj := fc.info.ObjectOf(id)
	switch o := obj.(type) {
	case *types.Nil:
		return Term{S: "nil", T: types.Typ[types.UntypedNil]}
	case *types.Const:
		return fc.w.constTerm(o.Val(), o.Type())
	case *types.Var:
		if a, ok := st.exprAlias[o]; ok {
			return fc.evalAs(st, a, o.Type())
		}
		if a, ok := st.alias[o]; ok {
			return fc.eval(st, a)
		}
		if v, ok := st.vars[o]; ok {
			return v
		}
		// global variable or captured: introduce once
		v := fc.globalInit(st, o)
		return v
	}
	fc.fail(id, "cannot evaluate identifier %s", id.Name)
	return Term{}
}

// globalInit gives a package-level variable its (arbitrary, per function entry) value.
func (fc *FuncCtx) globalInit(st *State, o *types.Var) Term {
	name := "g_" + o.Name()
	if o.Pkg() != nil {
		name = "g_" + o.Pkg().Name() + "_" + o.Name()
	}
	if v, ok := fc.oldState.vars[o]; ok {
		st.vars[o] = v
		return v
	}
	v := fc.fresh(name, o.Type())
	fc.oldState.vars[o] = v
	st.vars[o] = v
	fc.inputs = append(fc.inputs, InputSym{Name: "global " + o.Name(), Term: v})
	if fc.w.globalNeverNil(o) {
		fc.facts = append(fc.facts, not(fc.reg().isNil(v)))
	}
	if init, pkg := fc.w.constTableInit(o); init != nil {
		// a package-level table that is only ever read: its value is its initialiser
		func() {
			sInfo, sPkg, sQuiet := fc.info, fc.pkg, fc.quiet
			fc.info, fc.pkg, fc.quiet = pkg.TypesInfo, pkg, true
			defer func() {
				fc.info, fc.pkg, fc.quiet = sInfo, sPkg, sQuiet
				if r := recover(); r != nil {
					if _, ok := r.(translateErr); !ok {
						panic(r)
					}
				}
			}()
			val := fc.eval(st, init)
			fc.facts = append(fc.facts, eq(v.S, val.S))
		}()
	}
	return v
}

// constTableInit: the composite-literal initialiser of a package-level map or slice of the repository with at most
// 64 entries that is never assigned, never has its address taken and is only used as the operand of an index
// expression that is read, of len, or of range (so nobody can change its contents).
func (w *World) constTableInit(o *types.Var) (ast.Expr, *packages.Package) {
	if w.constTables == nil {
		w.constTables = map[*types.Var]ast.Expr{}
	}
	if o.Pkg() == nil {
		return nil, nil
	}
	pkg := w.Pkgs[o.Pkg().Path()]
	if pkg == nil {
		return nil, nil
	}
	if e, ok := w.constTables[o]; ok {
		return e, pkg
	}
	w.constTables[o] = nil
	switch o.Type().Underlying().(type) {
	case *types.Map, *types.Slice, *types.Array:
	default:
		return nil, nil
	}
	var init *ast.CompositeLit
	for _, f := range pkg.Syntax {
		for _, d := range f.Decls {
			gd, ok := d.(*ast.GenDecl)
			if !ok || gd.Tok != token.VAR {
				continue
			}
			for _, sp := range gd.Specs {
				vs := sp.(*ast.ValueSpec)
				if len(vs.Values) != len(vs.Names) {
					continue
				}
				for i, n := range vs.Names {
					if pkg.TypesInfo.Defs[n] == o {
						init, _ = unparen(vs.Values[i]).(*ast.CompositeLit)
					}
				}
			}
		}
	}
	if init == nil || len(init.Elts) > 64 {
		return nil, nil
	}
	// every use is a read
	ok := true
	for _, p := range w.Pkgs {
		for _, f := range p.Syntax {
			var stack []ast.Node
			ast.Inspect(f, func(n ast.Node) bool {
				if n == nil {
					stack = stack[:len(stack)-1]
					return true
				}
				stack = append(stack, n)
				id, isId := n.(*ast.Ident)
				if !isId || p.TypesInfo.Uses[id] != o {
					return true
				}
				// walk up through a package qualifier
				k := len(stack) - 2
				if k >= 0 {
					if sel, isSel := stack[k].(*ast.SelectorExpr); isSel && sel.Sel == id {
						k--
					}
				}
				if k < 0 {
					ok = false
					return true
				}
				self := stack[k+1]
				switch par := stack[k].(type) {
				case *ast.IndexExpr:
					if par.X != self {
						ok = false
						break
					}
					// the element must not be assigned or have its address taken
					if k-1 >= 0 {
						switch gp := stack[k-1].(type) {
						case *ast.AssignStmt:
							for _, l := range gp.Lhs {
								if l == ast.Expr(par) {
									ok = false
								}
							}
						case *ast.IncDecStmt:
							ok = false
						case *ast.UnaryExpr:
							if gp.Op == token.AND {
								ok = false
							}
						}
					}
				case *ast.RangeStmt:
					if par.X != self {
						ok = false
					}
				case *ast.CallExpr:
					if fid, isF := par.Fun.(*ast.Ident); !isF || fid.Name != "len" {
						ok = false
					}
				default:
					ok = false
				}
				return true
			})
		}
	}
	if !ok {
		return nil, nil
	}
	w.constTables[o] = init
	return init, pkg
}

// globalNeverNil: a package variable of the repository of pointer, map, slice, channel, function or interface
// type whose declaration initialises it with a value that cannot be nil (address of a composite literal, map or
// slice literal, make, new, or a call whose contract ensures a non-nil result) and that is never assigned and
// never has its address taken anywhere in the module.
func (w *World) globalNeverNil(o *types.Var) bool {
	if w.neverNil == nil {
		w.neverNil = map[*types.Var]bool{}
	}
	if r, ok := w.neverNil[o]; ok {
		return r
	}
	w.neverNil[o] = false
	switch o.Type().Underlying().(type) {
	case *types.Pointer, *types.Map, *types.Slice, *types.Chan, *types.Interface, *types.Signature:
	default:
		return false
	}
	if o.Pkg() == nil {
		return false
	}
	pkg := w.Pkgs[o.Pkg().Path()]
	if pkg == nil {
		return false
	}
	var init ast.Expr
	for _, f := range pkg.Syntax {
		for _, d := range f.Decls {
			gd, ok := d.(*ast.GenDecl)
			if !ok || gd.Tok != token.VAR {
				continue
			}
			for _, sp := range gd.Specs {
				vs := sp.(*ast.ValueSpec)
				if len(vs.Values) != len(vs.Names) {
					continue
				}
				for i, n := range vs.Names {
					if pkg.TypesInfo.Defs[n] == o {
						init = vs.Values[i]
					}
				}
			}
		}
	}
	if init == nil {
		return false
	}
	nonNil := false
	switch x := unparen(init).(type) {
	case *ast.UnaryExpr:
		if _, ok := unparen(x.X).(*ast.CompositeLit); ok && x.Op == token.AND {
			nonNil = true
		}
	case *ast.CompositeLit:
		nonNil = true
	case *ast.FuncLit:
		nonNil = true
	case *ast.CallExpr:
		if id, ok := unparen(x.Fun).(*ast.Ident); ok {
			if b, ok := pkg.TypesInfo.ObjectOf(id).(*types.Builtin); ok && (b.Name() == "make" || b.Name() == "new") {
				nonNil = true
			}
		}
		var fn *types.Func
		switch f := unparen(x.Fun).(type) {
		case *ast.Ident:
			fn, _ = pkg.TypesInfo.ObjectOf(f).(*types.Func)
		case *ast.SelectorExpr:
			fn, _ = pkg.TypesInfo.ObjectOf(f.Sel).(*types.Func)
		}
		if fn != nil {
			if c := w.Contracts[fn.FullName()]; c != nil && c.Trusted {
				for _, e := range c.Ensures {
					if strings.ReplaceAll(e.Text, " ", "") == "result!=nil" {
						nonNil = true
					}
				}
			}
		}
	}
	if !nonNil || w.assignedSomewhere(o) != "" {
		return false
	}
	w.neverNil[o] = true
	return true
}

// derefChecked dereferences a pointer value with a nil obligation.
func (fc *FuncCtx) derefChecked(st *State, p Term, n ast.Node, what string) Term {
	if as, ok := fc.reg().ifaceAs[fc.reg().typeKey(p.T)]; ok {
		p = Term{S: p.S, T: as}
	}
	fc.oblige(st, "panic.nilptr", "", not(fc.reg().isNil(p)), n, "nil dereference of "+what)
	return fc.reg().deref(p)
}

func (fc *FuncCtx) evalSelector(st *State, x *ast.SelectorExpr) Term {
	// qualified identifier (pkg.Name)
	if id, ok := x.X.(*ast.Ident); ok {
		if _, isPkg := fc.info.ObjectOf(id).(*types.PkgName); isPkg {
			obj := fc.info.ObjectOf(x.Sel)
			switch o := obj.(type) {
			case *types.Const:
				return fc.w.constTerm(o.Val(), o.Type())
			case *types.Var:
				if v, ok := st.vars[o]; ok {
					return v
				}
				return fc.globalInit(st, o)
			}
			fc.fail(x, "unsupported qualified identifier %s", exprStr(x))
		}
	}
	sel := fc.info.Selections[x]
	if sel == nil {
		fc.fail(x, "unresolved selector")
	}
	if sel.Kind() != types.FieldVal {
		// method value: not supported as a value
		fc.fail(x, "method value %s", exprStr(x))
	}
	base := fc.eval(st, x.X)
	if base.Static != nil {
		if t, ok := fc.staticField(base, x.Sel.Name, fc.typeOf(x)); ok {
			return t
		}
	}
	fc.lockCheck(st, x, "R", x)
	return fc.selectPath(st, base, sel, x)
}

// selectPath follows a (possibly promoted) field selection.
func (fc *FuncCtx) selectPath(st *State, base Term, sel *types.Selection, n ast.Node) Term {
	cur := base
	for _, idx := range sel.Index() {
		if _, ok := cur.T.Underlying().(*types.Pointer); ok {
			cur = fc.derefChecked(st, cur, n, exprStr(n.(ast.Expr)))
		}
		stt, ok := cur.T.Underlying().(*types.Struct)
		if !ok {
			fc.fail(n, "selection on non-struct %s", types.TypeString(cur.T, nil))
		}
		f := stt.Field(idx)
		v, ok := fc.reg().fieldOf(cur, f.Name())
		if !ok {
			// a field of a library struct that no contract models: its value is unknown at every read
			if si := fc.reg().StructInfo(cur.T); si != nil && si.Opaque {
				cur = fc.fresh("unmodelled_"+f.Name(), f.Type())
				continue
			}
			fc.fail(n, "field %s of opaque type %s is not modelled", f.Name(), types.TypeString(cur.T, nil))
		}
		cur = v
	}
	return cur
}

func (fc *FuncCtx) evalUnary(st *State, x *ast.UnaryExpr) Term {
	switch x.Op {
	case token.AND:
		// &lvalue or &CompositeLit
		v := fc.eval(st, x.X)
		return fc.reg().ref(v, fc.typeOf(x))
	case token.NOT:
		v := fc.eval(st, x.X)
		return Term{S: not(v.S), T: v.T}
	case token.SUB:
		v := fc.eval(st, x.X)
		t := fc.typeOf(x)
		return Term{S: wrapInt("(- "+v.S+")", t, true), T: t}
	case token.ADD:
		return fc.eval(st, x.X)
	case token.XOR:
		v := fc.eval(st, x.X)
		t := fc.typeOf(x)
		if lo, hi, _, signed, ok := intRange(t); ok {
			_ = lo
			if !signed {
				return Term{S: "(- " + bigLit(hi) + " " + v.S + ")", T: t}
			}
			return Term{S: "(- (- " + v.S + ") 1)", T: t}
		}
	case token.ARROW:
		if strings.Contains(" "+fc.nonblockingOpt()+" ", " * ") {
			name := types.ExprString(x.X)
			fc.oblige(st, "chan.nonblocking", sanitize(name), strconv.FormatBool(fc.inNonBlocking), x, "the receive from "+name+" must not block this function: it has to be a case of a select with a default clause")
		}
		return fc.chanRecv(st, x)
	}
	fc.fail(x, "unsupported unary operator %s", x.Op)
	return Term{}
}

func (fc *FuncCtx) evalBinary(st *State, x *ast.BinaryExpr) Term {
	switch x.Op {
	case token.LAND, token.LOR:
		a := fc.eval(st, x.X)
		// evaluate the right operand under the guard that it is reached
		sub := st.clone()
		if x.Op == token.LAND {
			sub.guard = and(st.guard, a.S)
		} else {
			sub.guard = and(st.guard, not(a.S))
		}
		b := fc.eval(sub, x.Y)
		// side effects in sub (calls) are merged back
		other := st.clone()
		if x.Op == token.LAND {
			other.guard = and(st.guard, not(a.S))
		} else {
			other.guard = and(st.guard, a.S)
		}
		m := fc.merge([]*State{other, sub})
		g := st.guard
		*st = *m
		st.guard = g
		if x.Op == token.LAND {
			return Term{S: and(a.S, b.S), T: tBool}
		}
		return Term{S: or(a.S, b.S), T: tBool}
	}
	a := fc.eval(st, x.X)
	b := fc.eval(st, x.Y)
	t := fc.typeOf(x)
	return fc.binop(st, x.Op, a, b, t, x)
}

func (fc *FuncCtx) isUntypedNil(t Term) bool {
	b, ok := t.T.(*types.Basic)
	return ok && b.Kind() == types.UntypedNil
}

func (fc *FuncCtx) equalTerms(st *State, a, b Term, n ast.Node) string {
	if fc.isUntypedNil(b) {
		return fc.reg().isNil(a)
	}
	if fc.isUntypedNil(a) {
		return fc.reg().isNil(b)
	}
	sa, sb := fc.reg().SortOf(a.T), fc.reg().SortOf(b.T)
	if sa != sb {
		// concrete compared with interface: box the concrete side
		if isInterface(a.T) && !isInterface(b.T) {
			b = fc.toInterface(st, b, a.T)
		} else if isInterface(b.T) && !isInterface(a.T) {
			a = fc.toInterface(st, a, b.T)
		} else {
			fc.fail(n, "comparison of %s and %s", types.TypeString(a.T, nil), types.TypeString(b.T, nil))
		}
	}
	return eq(a.S, b.S)
}

func (fc *FuncCtx) binop(st *State, op token.Token, a, b Term, t types.Type, n ast.Node) Term {
	switch op {
	case token.EQL:
		return Term{S: fc.equalTerms(st, a, b, n), T: tBool}
	case token.NEQ:
		return Term{S: not(fc.equalTerms(st, a, b, n)), T: tBool}
	case token.LSS, token.LEQ, token.GTR, token.GEQ:
		if isString(a.T) {
			fc.fail(n, "string ordering not modelled")
		}
		ops := map[token.Token]string{token.LSS: "<", token.LEQ: "<=", token.GTR: ">", token.GEQ: ">="}
		return Term{S: "(" + ops[op] + " " + a.S + " " + b.S + ")", T: tBool}
	}
	if isString(t) {
		if op == token.ADD {
			return fc.strConcat(a, b, t)
		}
		fc.fail(n, "unsupported string operator")
	}
	if isFloat(t) {
		return fc.fresh("fl", t)
	}
	switch op {
	case token.ADD:
		return Term{S: wrapInt("(+ "+a.S+" "+b.S+")", t, true), T: t}
	case token.SUB:
		return Term{S: wrapInt("(- "+a.S+" "+b.S+")", t, true), T: t}
	case token.MUL:
		return Term{S: wrapInt("(* "+a.S+" "+b.S+")", t, false), T: t}
	case token.QUO, token.REM:
		fc.oblige(st, "panic.div", "", not(eq(b.S, "0")), n, "division by zero")
		// Go truncates toward zero
		q := "(ite (>= " + a.S + " 0) (ite (> " + b.S + " 0) (div " + a.S + " " + b.S + ") (- (div " + a.S + " (- " + b.S + ")))) (ite (> " + b.S + " 0) (- (div (- " + a.S + ") " + b.S + ")) (div (- " + a.S + ") (- " + b.S + "))))"
		if _, _, _, signed, ok := intRange(t); ok && !signed {
			q = "(div " + a.S + " " + b.S + ")"
		}
		if op == token.QUO {
			return Term{S: wrapInt(q, t, true), T: t}
		}
		if _, _, _, signed, ok := intRange(t); ok && !signed {
			return Term{S: "(mod " + a.S + " " + b.S + ")", T: t}
		}
		return Term{S: "(- " + a.S + " (* " + b.S + " " + q + "))", T: t}
	case token.SHL, token.SHR:
		k, isLit := isLiteral(b.S)
		if !isLit || k.Sign() < 0 || k.Int64() > 64 {
			// variable shift: uninterpreted but range-correct
			r := fc.fresh("shift", t)
			return r
		}
		p := pow2(int(k.Int64()))
		kk := int(k.Int64())
		if op == token.SHL {
			if _, _, tbits, signed, ok := intRange(t); ok && a.Bits > 0 {
				limit := tbits
				if signed {
					limit = tbits - 1
				}
				if a.Bits+kk <= limit {
					// no overflow possible: exact product
					return Term{S: "(* " + a.S + " " + p + ")", T: t, Bits: a.Bits + kk, Low: a.Low + kk}
				}
			}
			return Term{S: wrapInt("(* "+a.S+" "+p+")", t, false), T: t}
		}
		r := Term{S: "(div " + a.S + " " + p + ")", T: t} // floor division is arithmetic shift for negatives too
		if a.Bits > kk {
			r.Bits = a.Bits - kk
		} else if a.Bits > 0 {
			r.Bits = 1
		}
		return r
	case token.AND:
		return fc.bitAnd(st, a, b, t)
	case token.OR:
		return fc.bitOr(st, a, b, t, n)
	case token.XOR, token.AND_NOT:
		return fc.bitOpaque(st, op.String(), a, b, t)
	}
	fc.fail(n, "unsupported binary operator %s", op)
	return Term{}
}

// mask of contiguous ones [lo,hi)
func contiguousMask(v *big.Int) (lo, hi int, ok bool) {
	if v.Sign() <= 0 {
		return 0, 0, false
	}
	lo = int(v.TrailingZeroBits())
	sh := new(big.Int).Rsh(v, uint(lo))
	hi = lo + sh.BitLen()
	ones := new(big.Int).Sub(new(big.Int).Lsh(big.NewInt(1), uint(sh.BitLen())), big.NewInt(1))
	return lo, hi, sh.Cmp(ones) == 0
}

func (fc *FuncCtx) bitAnd(st *State, a, b Term, t types.Type) Term {
	if _, ok := isLiteral(a.S); ok {
		a, b = b, a
	}
	if m, ok := isLiteral(b.S); ok {
		if m.Sign() == 0 {
			return Term{S: "0", T: t}
		}
		if lo, hi, ok := contiguousMask(m); ok {
			// non-negative operand assumed by type (unsigned) or handled via mod for signed too
			x := a.S
			if _, _, bits, signed, okr := intRange(a.T); okr && signed {
				x = "(mod " + x + " " + pow2(bits) + ")"
			}
			if lo == 0 {
				return Term{S: "(mod " + x + " " + pow2(hi) + ")", T: t, Bits: hi}
			}
			return Term{S: "(* (mod (div " + x + " " + pow2(lo) + ") " + pow2(hi-lo) + ") " + pow2(lo) + ")", T: t, Bits: hi, Low: lo}
		}
	}
	return fc.bitOpaque(st, "&", a, b, t)
}

// upperBoundBits gives n such that the term is known < 2^n and multiple of 2^low by construction.
func (fc *FuncCtx) shapeOf(s string, t types.Type) (low int, high int) {
	_, _, bits, _, ok := intRange(t)
	if !ok {
		bits = 64
	}
	high = bits
	// (mod x 2^k) or wrapped (* x 2^k)
	if strings.HasPrefix(s, "(mod (* ") {
		// (mod (* X P) M)
		inner := s[5:]
		if j := matchParen(inner); j > 0 {
			mul := inner[:j+1]
			parts := splitSexp(mul[1 : len(mul)-1])
			if len(parts) == 3 {
				if p, ok := isLiteral(parts[2]); ok && p.Sign() > 0 && p.BitLen() > 0 && new(big.Int).And(p, new(big.Int).Sub(p, big.NewInt(1))).Sign() == 0 {
					low = p.BitLen() - 1
				}
			}
		}
		return
	}
	if strings.HasPrefix(s, "(+ ") {
		parts := splitSexp(s[1 : len(s)-1])
		low = 64
		for _, p := range parts[1:] {
			l, _ := fc.shapeOf(p, t)
			if l < low {
				low = l
			}
		}
		return
	}
	if strings.HasPrefix(s, "(* ") {
		parts := splitSexp(s[1 : len(s)-1])
		if len(parts) == 3 {
			if p, ok := isLiteral(parts[2]); ok && p.Sign() > 0 && new(big.Int).And(p, new(big.Int).Sub(p, big.NewInt(1))).Sign() == 0 {
				low = p.BitLen() - 1
			}
		}
	}
	return
}

func matchParen(s string) int {
	d := 0
	for i, c := range s {
		if c == '(' {
			d++
		} else if c == ')' {
			d--
			if d == 0 {
				return i
			}
		}
	}
	return -1
}

func splitSexp(s string) []string {
	var out []string
	d := 0
	start := -1
	for i, c := range s {
		switch {
		case c == '(':
			if d == 0 && start < 0 {
				start = i
			}
			d++
		case c == ')':
			d--
			if d == 0 {
				out = append(out, s[start:i+1])
				start = -1
			}
		case c == ' ' || c == '\n' || c == '\t':
			if d == 0 && start >= 0 {
				out = append(out, s[start:i])
				start = -1
			}
		default:
			if d == 0 && start < 0 {
				start = i
			}
		}
	}
	if start >= 0 {
		out = append(out, s[start:])
	}
	return out
}

// bitOr: a|b == a+b when the set bits are disjoint; this is emitted as a side obligation
// "disjoint.or" in the form: one side is a multiple of 2^k and the other is < 2^k.
func (fc *FuncCtx) bitOr(st *State, a, b Term, t types.Type, n ast.Node) Term {
	if a.Bits > 0 && b.Bits > 0 {
		hi, lo := a, b
		if b.Low > a.Low {
			hi, lo = b, a
		}
		if hi.Low >= lo.Bits {
			// statically disjoint bit ranges: | is +
			bits := hi.Bits
			if lo.Bits > bits {
				bits = lo.Bits
			}
			return Term{S: "(+ " + hi.S + " " + lo.S + ")", T: t, Bits: bits, Low: lo.Low}
		}
	}
	la, _ := fc.shapeOf(a.S, t)
	lb, _ := fc.shapeOf(b.S, t)
	if lb > la {
		a, b = b, a
		la = lb
	}
	if la > 0 {
		// exact when the low operand fits below the high operand's zero bits, opaque otherwise
		op := fc.bitOpaque(st, "|", a, b, t)
		return Term{S: ite("(and (<= 0 "+b.S+") (< "+b.S+" "+pow2(la)+"))", "(+ "+a.S+" "+b.S+")", op.S), T: t}
	}
	if v, ok := isLiteral(b.S); ok && v.Sign() == 0 {
		return a
	}
	if v, ok := isLiteral(a.S); ok && v.Sign() == 0 {
		return b
	}
	return fc.bitOpaque(st, "|", a, b, t)
}

func (fc *FuncCtx) bitOpaque(st *State, op string, a, b Term, t types.Type) Term {
	name := map[string]string{"&": "bv_and", "|": "bv_or", "^": "bv_xor", "&^": "bv_andnot"}[op]
	fc.w.declareUninterp(&Uninterp{Name: name, Params: []ParamDecl{{"a", tMath}, {"b", tMath}}, Result: tMath})
	r := Term{S: "(u_" + name + " " + a.S + " " + b.S + ")", T: t}
	if rf := fc.reg().rangeFact(r, 0); rf != "true" {
		fc.assume(st, rf)
	}
	if op == "&" {
		if _, _, _, signed, ok := intRange(t); ok && !signed {
			fc.assume(st, "(and (<= "+r.S+" "+a.S+") (<= "+r.S+" "+b.S+"))")
		}
	}
	return r
}

func (fc *FuncCtx) strConcat(a, b Term, t types.Type) Term {
	if a.Const != nil && b.Const != nil {
		s := *a.Const + *b.Const
		return Term{S: fc.reg().strConst(s), T: t, Const: &s}
	}
	fc.w.declareUninterp(&Uninterp{Name: "strcat", Params: []ParamDecl{{"a", types.Typ[types.String]}, {"b", types.Typ[types.String]}}, Result: types.Typ[types.String]})
	r := Term{S: "(u_strcat " + a.S + " " + b.S + ")", T: t}
	fc.facts = append(fc.facts, "(= (js_strsafe "+r.S+") (and (js_strsafe "+a.S+") (js_strsafe "+b.S+")))")
	return r
}

func (fc *FuncCtx) evalIndex(st *State, x *ast.IndexExpr, commaOk bool) []Term {
	base := fc.eval(st, x.X)
	if _, ok := base.T.Underlying().(*types.Pointer); ok { // pointer to array
		base = fc.derefChecked(st, base, x, exprStr(x.X))
	}
	switch u := base.T.Underlying().(type) {
	case *types.Slice:
		i := fc.eval(st, x.Index)
		_, arr, off, ln, _ := fc.reg().sliceParts(base)
		fc.oblige(st, "panic.index", "", "(and (<= 0 "+i.S+") (< "+i.S+" "+ln+"))", x, "index "+exprStr(x.Index)+" within "+exprStr(x.X))
		v := Term{S: "(select " + arr + " (+ " + off + " " + i.S + "))", T: u.Elem()}
		fc.elemFact(st, v)
		return []Term{v}
	case *types.Array:
		i := fc.eval(st, x.Index)
		fc.oblige(st, "panic.index", "", "(and (<= 0 "+i.S+") (< "+i.S+" "+strconv.FormatInt(u.Len(), 10)+"))", x, "index within array")
		v := Term{S: "(select " + base.S + " " + i.S + ")", T: u.Elem()}
		fc.elemFact(st, v)
		return []Term{v}
	case *types.Map:
		k := fc.eval(st, x.Index)
		if isInterface(u.Key()) && !isInterface(k.T) {
			k = fc.toInterface(st, k, u.Key())
		}
		s := fc.reg().SortOf(base.T)
		present := "(and (not (isnil_" + s + " " + base.S + ")) (select (dom_" + s + " " + base.S + ") " + k.S + "))"
		v := Term{S: ite(present, "(select (val_"+s+" "+base.S+") "+k.S+")", fc.reg().Zero(u.Elem()).S), T: u.Elem()}
		fc.elemFact(st, v)
		if commaOk {
			return []Term{v, {S: present, T: tBool}}
		}
		return []Term{v}
	case *types.Basic: // string index
		i := fc.eval(st, x.Index)
		fc.oblige(st, "panic.index", "", "(and (<= 0 "+i.S+") (< "+i.S+" (strlen "+base.S+")))", x, "index within string")
		return []Term{fc.fresh("strbyte", types.Typ[types.Uint8])}
	}
	fc.fail(x, "unsupported index base %s", types.TypeString(base.T, nil))
	return nil
}

// elemFact adds the range fact of a selected element.
func (fc *FuncCtx) elemFact(st *State, v Term) {
	if rf := fc.reg().rangeFact(v, 0); rf != "true" {
		fc.assume(st, rf)
	}
}

func (fc *FuncCtx) evalSliceExpr(st *State, x *ast.SliceExpr) Term {
	base := fc.eval(st, x.X)
	rt := fc.typeOf(x)
	if _, ok := base.T.Underlying().(*types.Pointer); ok {
		base = fc.derefChecked(st, base, x, exprStr(x.X))
	}
	var arr, off, ln, cp string
	switch u := base.T.Underlying().(type) {
	case *types.Slice:
		_, arr, off, ln, cp = fc.reg().sliceParts(base)
	case *types.Array:
		arr, off = base.S, "0"
		ln = strconv.FormatInt(u.Len(), 10)
		cp = ln
	case *types.Basic:
		// string slicing
		lo, hi := "0", "(strlen "+base.S+")"
		if x.Low != nil {
			lo = fc.eval(st, x.Low).S
		}
		if x.High != nil {
			hi = fc.eval(st, x.High).S
		}
		fc.oblige(st, "panic.slice", "", "(and (<= 0 "+lo+") (<= "+lo+" "+hi+") (<= "+hi+" (strlen "+base.S+")))", x, "string slice bounds")
		r := fc.fresh("substr", rt)
		fc.assume(st, eq("(strlen "+r.S+")", minus(hi, lo)))
		return r
	default:
		fc.fail(x, "unsupported slice base")
	}
	lo, hi, mx := "0", ln, cp
	if x.Low != nil {
		lo = fc.eval(st, x.Low).S
	}
	if x.High != nil {
		hi = fc.eval(st, x.High).S
	}
	if x.Max != nil {
		mx = fc.eval(st, x.Max).S
	}
	goal := "(and (<= 0 " + lo + ") (<= " + lo + " " + hi + ") (<= " + hi + " " + mx + ") (<= " + mx + " " + cp + "))"
	fc.oblige(st, "panic.slice", "", goal, x, "slice bounds of "+exprStr(x.X))
	return fc.reg().mkSlice(rt, arr, plus(off, lo), minus(hi, lo), minus(mx, lo))
}

func (fc *FuncCtx) evalCompositeLit(st *State, x *ast.CompositeLit) Term {
	t := fc.typeOf(x)
	switch u := t.Underlying().(type) {
	case *types.Struct:
		si := fc.reg().StructInfo(t)
		vals := map[string]string{}
		for i, el := range x.Elts {
			if kv, ok := el.(*ast.KeyValueExpr); ok {
				name := kv.Key.(*ast.Ident).Name
				vals[name] = fc.evalAs(st, kv.Value, fieldType(u, name)).S
			} else {
				f := u.Field(i)
				vals[f.Name()] = fc.evalAs(st, el, f.Type()).S
			}
		}
		var fs []string
		for _, f := range si.Fields {
			if v, ok := vals[f.Name]; ok {
				fs = append(fs, v)
			} else if f.Ghost && f.Init != "" {
				if v, ok := vals[f.Init]; ok {
					fs = append(fs, v)
				} else {
					fs = append(fs, fc.reg().Zero(f.Type).S)
				}
			} else if si.Opaque && f.Ghost {
				fs = append(fs, fc.fresh("lit_"+f.Name, f.Type).S)
			} else {
				fs = append(fs, fc.reg().Zero(f.Type).S)
			}
		}
		return Term{S: "(" + si.Ctor + " " + strings.Join(fs, " ") + ")", T: t}
	case *types.Slice:
		es := fc.reg().SortOf(u.Elem())
		arr := fc.reg().constArray(es, fc.reg().Zero(u.Elem()).S)
		n := 0
		for _, el := range x.Elts {
			if _, ok := el.(*ast.KeyValueExpr); ok {
				fc.fail(x, "keyed slice literal")
			}
			v := fc.evalAs(st, el, u.Elem())
			arr = "(store " + arr + " " + strconv.Itoa(n) + " " + v.S + ")"
			n++
		}
		return fc.reg().mkSlice(t, arr, "0", strconv.Itoa(n), strconv.Itoa(n))
	case *types.Array:
		es := fc.reg().SortOf(u.Elem())
		arr := fc.reg().constArray(es, fc.reg().Zero(u.Elem()).S)
		for i, el := range x.Elts {
			if _, ok := el.(*ast.KeyValueExpr); ok {
				fc.fail(x, "keyed array literal")
			}
			v := fc.evalAs(st, el, u.Elem())
			arr = "(store " + arr + " " + strconv.Itoa(i) + " " + v.S + ")"
		}
		return Term{S: arr, T: t}
	case *types.Map:
		if len(x.Elts) > 256 {
			fc.fail(x, "map literal with more than 256 entries")
		}
		m := fc.emptyMap(t)
		sort := fc.reg().SortOf(t)
		for _, el := range x.Elts {
			kv, ok := el.(*ast.KeyValueExpr)
			if !ok {
				fc.fail(x, "map literal element without key")
			}
			k := fc.evalAs(st, kv.Key, u.Key())
			v := fc.evalAs(st, kv.Value, u.Elem())
			dom, val, size := "(dom_"+sort+" "+m.S+")", "(val_"+sort+" "+m.S+")", "(size_"+sort+" "+m.S+")"
			// duplicate constant keys are rejected by the compiler, so every entry is new
			m = fc.compact(Term{S: "(mk_" + sort + " false (store " + dom + " " + k.S + " true) (store " + val + " " + k.S + " " + v.S + ") (+ " + size + " 1))", T: t})
		}
		return m
	}
	fc.fail(x, "unsupported composite literal of type %s", types.TypeString(t, nil))
	return Term{}
}

func (fc *FuncCtx) emptyMap(t types.Type) Term {
	z := fc.reg().Zero(t)
	s := fc.reg().SortOf(t)
	// same as the nil map but not nil
	return Term{S: strings.Replace(z.S, "(mk_"+s+" true", "(mk_"+s+" false", 1), T: t}
}

func fieldType(u *types.Struct, name string) types.Type {
	for i := 0; i < u.NumFields(); i++ {
		if u.Field(i).Name() == name {
			return u.Field(i).Type()
		}
	}
	return nil
}

// evalAs evaluates e and converts it implicitly to the target type (interface boxing).
func (fc *FuncCtx) evalAs(st *State, e ast.Expr, target types.Type) Term {
	v := fc.eval(st, e)
	return fc.convertImplicit(st, v, target)
}

func (fc *FuncCtx) convertImplicit(st *State, v Term, target types.Type) Term {
	if v.Static != nil {
		return Term{S: v.S, T: target, Const: v.Const, Static: v.Static} // statically known reflect value: kept as is
	}
	if target == nil {
		return v
	}
	if fc.isUntypedNil(v) {
		return fc.reg().Zero(target)
	}
	if isInterface(target) && !isInterface(v.T) {
		return fc.toInterface(st, v, target)
	}
	if isInterface(target) && isInterface(v.T) {
		// interface-to-interface: possibly between a modelled-as-pointer and Any
		sa, sb := fc.reg().SortOf(v.T), fc.reg().SortOf(target)
		if sa != sb {
			if sb == "Any" {
				return Term{S: "(any_other " + strconv.Itoa(fc.reg().TypeID(v.T)) + " 0)", T: target}
			}
			fc.fail(nil, "interface conversion between differently modelled interfaces")
		}
		return Term{S: v.S, T: target}
	}
	return Term{S: v.S, T: target, Const: v.Const}
}

// toInterface boxes a concrete value.
func (fc *FuncCtx) toInterface(st *State, v Term, target types.Type) Term {
	if as, ok := fc.reg().ifaceAs[fc.reg().typeKey(target)]; ok {
		// the interface is modelled as a pointer to a ghost struct: the concrete value must be that pointer
		if fc.reg().SortOf(v.T) == fc.reg().SortOf(as) {
			return Term{S: v.S, T: target}
		}
		return fc.fresh("iface", target)
	}
	fc.reg().SortOf(target)
	id := strconv.Itoa(fc.reg().TypeID(v.T))
	switch u := v.T.Underlying().(type) {
	case *types.Basic:
		switch {
		case u.Info()&types.IsInteger != 0, u.Info()&types.IsFloat != 0:
			return Term{S: "(any_int " + id + " " + v.S + ")", T: target}
		case u.Info()&types.IsBoolean != 0:
			return Term{S: "(any_bool " + v.S + ")", T: target}
		case u.Info()&types.IsString != 0:
			return Term{S: "(any_str " + id + " " + v.S + ")", T: target, Const: v.Const}
		}
	case *types.Slice:
		if b, ok := u.Elem().Underlying().(*types.Basic); ok && b.Kind() == types.Uint8 {
			return Term{S: "(any_bytes " + id + " " + v.S + ")", T: target}
		}
	case *types.Pointer:
		// nil pointers in interfaces are non-nil interfaces
	}
	oid := fc.fresh("box", tInt)
	if fn := fc.unboxFn(v.T); fn != "" {
		fc.assume(st, eq("("+fn+" "+oid.S+")", v.S))
	}
	return Term{S: "(any_other " + id + " " + oid.S + ")", T: target}
}

// implementsIface reports whether dynamic type id matching for case T (interface) is "any non-nil".
func (fc *FuncCtx) evalTypeAssert(st *State, x *ast.TypeAssertExpr, commaOk bool) []Term {
	v := fc.eval(st, x.X)
	target := fc.typeOf(x.Type)
	ok, val := fc.typeMatch(st, v, target)
	if !commaOk {
		fc.oblige(st, "panic.assert", "", ok, x, "type assertion to "+types.TypeString(target, nil))
		return []Term{val}
	}
	z := fc.reg().Zero(target)
	return []Term{{S: ite(ok, val.S, z.S), T: target}, {S: ok, T: tBool}}
}

// typeMatch returns the condition under which interface value v has dynamic type target
// (or implements it), and the extracted value.
func (fc *FuncCtx) typeMatch(st *State, v Term, target types.Type) (string, Term) {
	if fc.reg().SortOf(v.T) != "Any" {
		// interface modelled as pointer: assertion to the modelled concrete type only
		return not(fc.reg().isNil(v)), fc.fresh("assert", target)
	}
	if isInterface(target) {
		// dynamic types are not tracked precisely enough to decide interface satisfaction in
		// general; the one form used in the code base is `case T` with T an interface that
		// every value of the static type implements (type nonfatalError error).
		if types.Implements(v.T, target.Underlying().(*types.Interface)) || types.AssignableTo(v.T, target) {
			return not("((_ is any_nil) " + v.S + ")"), Term{S: v.S, T: target}
		}
		c := fc.freshBool("implements")
		return and(not("((_ is any_nil) "+v.S+")"), c), Term{S: v.S, T: target}
	}
	id := strconv.Itoa(fc.reg().TypeID(target))
	switch u := target.Underlying().(type) {
	case *types.Basic:
		switch {
		case u.Info()&types.IsInteger != 0, u.Info()&types.IsFloat != 0:
			val := Term{S: "(any_iv " + v.S + ")", T: target}
			return "(and ((_ is any_int) " + v.S + ") (= (any_ty " + v.S + ") " + id + "))", val
		case u.Info()&types.IsBoolean != 0:
			return "((_ is any_bool) " + v.S + ")", Term{S: "(any_bv " + v.S + ")", T: target}
		case u.Info()&types.IsString != 0:
			return "(and ((_ is any_str) " + v.S + ") (= (any_sty " + v.S + ") " + id + "))", Term{S: "(any_sv " + v.S + ")", T: target}
		}
	case *types.Slice:
		if b, ok := u.Elem().Underlying().(*types.Basic); ok && b.Kind() == types.Uint8 {
			return "(and ((_ is any_bytes) " + v.S + ") (= (any_bty " + v.S + ") " + id + "))", Term{S: "(any_bs " + v.S + ")", T: target}
		}
	}
	if fn := fc.unboxFn(target); fn != "" {
		val := Term{S: "(" + fn + " (any_oid " + v.S + "))", T: target}
		if rf := fc.reg().rangeFact(val, 0); rf != "true" {
			fc.assume(st, implies("((_ is any_other) "+v.S+")", rf))
		}
		return "(and ((_ is any_other) " + v.S + ") (= (any_oty " + v.S + ") " + id + "))", val
	}
	val := fc.fresh("unbox", target)
	return "(= " + anyTypeID(v.S) + " " + id + ")", val
}

func (fc *FuncCtx) chanRecv(st *State, x *ast.UnaryExpr) Term {
	return fc.chanRecvOK(st, x, "true")
}

func (fc *FuncCtx) chanRecvOK(st *State, x *ast.UnaryExpr, ok string) Term {
	t := fc.typeOf(x)
	if tp, isT := t.(*types.Tuple); isT {
		t = tp.At(0).Type()
	}
	fc.eval(st, x.X)
	v := fc.fresh("recv", t)
	fc.chanRecvAssume(st, x.X, v, ok, x)
	// `opt countrecvs <chan>`: ghost recvs_<chan> counts the values taken from that package-level channel
	if fc.contract != nil && fc.contract.Opts["countrecvs"] != "" {
		key := fc.globalKey(x.X)
		if key == "" {
			// a channel held in a parameter or local variable is named by that variable
			if id, isId := unparen(x.X).(*ast.Ident); isId {
				key = id.Name
			}
		}
		if key != "" {
			name := key[strings.LastIndex(key, ".")+1:]
			for _, want := range strings.Fields(fc.contract.Opts["countrecvs"]) {
				if want == name {
					cur := st.ghost["recvs_"+name]
					st.ghost["recvs_"+name] = mkMath("(+ " + cur.S + " (ite " + ok + " 1 0))")
					// lastrecv_<chan>: the value of the latest successful receive
					if prev, have := st.ghost["lastrecv_"+name]; have && prev.T != nil && fc.reg().SortOf(prev.T) == fc.reg().SortOf(v.T) {
						st.ghost["lastrecv_"+name] = Term{S: ite(ok, v.S, prev.S), T: v.T}
					} else {
						st.ghost["lastrecv_"+name] = v
					}
				}
			}
		}
	}
	return v
}

// unboxFn declares (once) the function that recovers a boxed value of struct or pointer type
// from the object id stored in the interface value.
func (fc *FuncCtx) unboxFn(t types.Type) string {
	switch t.Underlying().(type) {
	case *types.Struct, *types.Pointer:
	default:
		return ""
	}
	sort := fc.reg().SortOf(t)
	name := "unbox_" + sanitize(sort)
	if !fc.reg().unboxFns[name] {
		fc.reg().unboxFns[name] = true
		fc.reg().uninterp = append(fc.reg().uninterp, "(declare-fun "+name+" (Int) "+sort+")")
	}
	return name
}
