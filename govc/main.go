package main

import (
	"encoding/json"
	"flag"
	"fmt"
	"go/ast"
	"go/types"
	"golang.org/x/tools/go/packages"
	"os"
	"path/filepath"
	"sort"
	"strconv"
	"strings"
	"time"
)

type PropSpec struct {
	ID      string   `json:"id"`
	Funcs   []string `json:"funcs"`   // function keys (short form) whose obligations count
	Kinds   []string `json:"kinds"`   // obligation kinds that count ("" = all)
	Lemmas  []string `json:"lemmas"`  // lemma names
	Grounds []string `json:"grounds"` // ground-obligation generators
	Level   string   `json:"level"`   // evidence level
	Assume  []string `json:"assumptions"`
	Note    string   `json:"note"`
	Extra   []string `json:"extra"` // extra engines (lock, json, ...)
}

func main() {
	var (
		repo     = flag.String("repo", "/repo", "repository root")
		verif    = flag.String("verif", "/verif", "verification root")
		prop     = flag.String("property", "", "property id")
		tier     = flag.String("tier", "quick", "quick|thorough")
		funcs    = flag.String("funcs", "", "comma separated function keys (development)")
		verbose  = flag.Bool("v", false, "verbose")
		dump     = flag.String("dump", "", "dump the query of the named obligation")
		keep     = flag.Bool("keep", false, "keep scratch directory")
		replayF  = flag.String("replay", "", "replay file to re-run")
		selftest = flag.Bool("canary", true, "run vacuity canaries")
		genOpts  = flag.Bool("gen-options", false, "print the generated contract section for vflow.Options (C17)")
		multi    = flag.String("multi", "", "comma separated property ids: verify the union of their functions once and print one verdict line per property (development, matrices)")
		genNames = flag.Bool("gen-names", false, "rewrite the `names` line of every function contract in the hook files from the current source")
		rf       = flag.Bool("rf", false, "development: replay failed obligations")
	)
	flag.Parse()
	t0 := time.Now()
	if *replayF != "" {
		os.Exit(rerunReplay(*replayF))
	}
	w, err := loadWorld(*repo, *verif)
	if err != nil {
		fmt.Fprintln(os.Stderr, "govc: load failed:", err)
		if *prop != "" {
			// a tree that does not load is undecided; report as violation without input
			rp := writeLoadFailure(*verif, *prop, err)
			fmt.Printf("VIOLATION property=%s replay=%s no-failing-input-found\n", *prop, rp)
			os.Exit(1)
		}
		os.Exit(2)
	}
	if *genNames {
		w.genNames(*repo)
		return
	}
	if *genOpts {
		sec, msg := w.optionsSection()
		if msg != "" {
			fmt.Fprintln(os.Stderr, "govc:", msg)
			os.Exit(2)
		}
		fmt.Print(sec)
		return
	}
	tLoad := time.Since(t0)
	r := &Runner{w: w, verif: *verif, tier: *tier, verbose: *verbose, keep: *keep, dump: *dump, canary: *selftest, t0: t0, loadMs: tLoad.Milliseconds()}
	if *funcs != "" {
		var keys []string
		for _, f := range strings.Split(*funcs, ",") {
			keys = append(keys, r.resolveFuncs(f)...)
		}
		res := r.run(&PropSpec{ID: "dev", Funcs: keys})
		r.printSummary(res)
		if *rf {
			for _, o := range res.obls {
				if !o.OK() && !o.Cover {
					rec, path := r.replayObligation("dev", o)
					fmt.Printf("REPLAY %s: %s (%s)\n  inputs: %v\n  model outputs: %v\n  file %s\n", o.Name, rec.Verdict, truncate(rec.Reason, 600), rec.Inputs, rec.Expected, path)
				}
			}
		}
		if res.failed > 0 {
			os.Exit(1)
		}
		return
	}
	if *multi != "" {
		specs, err := loadPropSpecs(filepath.Join(*verif, "properties.map.json"))
		if err != nil {
			fmt.Fprintln(os.Stderr, "govc:", err)
			os.Exit(2)
		}
		os.Exit(r.checkMulti(specs, strings.Split(*multi, ",")))
	}
	if *prop == "" {
		fmt.Fprintln(os.Stderr, "govc: -property or -funcs required")
		os.Exit(2)
	}
	specs, err := loadPropSpecs(filepath.Join(*verif, "properties.map.json"))
	if err != nil {
		fmt.Fprintln(os.Stderr, "govc:", err)
		os.Exit(2)
	}
	spec := specs[*prop]
	if spec == nil {
		fmt.Fprintln(os.Stderr, "govc: property not in properties.map.json:", *prop)
		os.Exit(2)
	}
	os.Exit(r.checkProperty(spec))
}

func loadPropSpecs(path string) (map[string]*PropSpec, error) {
	b, err := os.ReadFile(path)
	if err != nil {
		return nil, err
	}
	var list []*PropSpec
	if err := json.Unmarshal(b, &list); err != nil {
		return nil, err
	}
	m := map[string]*PropSpec{}
	for _, s := range list {
		m[s.ID] = s
	}
	return m, nil
}

type Runner struct {
	w       *World
	verif   string
	tier    string
	verbose bool
	keep    bool
	dump    string
	canary  bool
	t0      time.Time
	loadMs  int64
}

type runResult struct {
	ctxs      []*FuncCtx
	obls      []*Obligation
	failed    int
	translate []string
	solverMs  int64
	canaries  int
	canaryBad []string
	skipped   []string
}

// resolveFuncs expands a short function name or pattern ("reader.*", "reader.Reader.Uint16").
func (r *Runner) resolveFuncs(pat string) []string {
	var out []string
	for old, now := range r.w.renamedFuncs {
		if shortKey(old) == pat || old == pat {
			return []string{now}
		}
	}
	var keys []string
	for k := range r.w.FuncDecls {
		keys = append(keys, k)
	}
	sort.Strings(keys)
	for _, k := range keys {
		s := shortKey(k)
		if s == pat || k == pat {
			out = append(out, k)
			continue
		}
		if strings.HasSuffix(pat, "*") && strings.HasPrefix(s, strings.TrimSuffix(pat, "*")) {
			out = append(out, k)
		}
	}
	if len(out) == 0 {
		fmt.Fprintln(os.Stderr, "govc: no function matches", pat)
	}
	return out
}

func shortKey(k string) string {
	k = strings.ReplaceAll(k, repoModule+"/", "")
	k = strings.ReplaceAll(k, "(*", "")
	k = strings.ReplaceAll(k, "(", "")
	k = strings.ReplaceAll(k, ")", "")
	k = strings.ReplaceAll(k, "/", ".")
	return k
}

func (r *Runner) run(spec *PropSpec) *runResult {
	res := &runResult{}
	var keys []string
	seen := map[string]bool{}
	explicit := map[string]bool{}
	for _, f := range spec.Funcs {
		if r.w.FuncDecls[f] != nil {
			if !seen[f] {
				keys = append(keys, f)
				seen[f] = true
			}
			explicit[f] = true
			continue
		}
		m := r.resolveFuncs(f)
		if !strings.HasSuffix(f, "*") {
			for _, k := range m {
				explicit[k] = true
			}
		}
		if len(m) == 0 {
			res.translate = append(res.translate, f+": function not found in the repository")
		}
		for _, k := range m {
			if !seen[k] {
				keys = append(keys, k)
				seen[k] = true
			}
		}
	}
	for _, ln := range spec.Lemmas {
		found := false
		for _, l := range r.w.Lemmas {
			if l.Name == ln {
				found = true
				fc := r.w.verifyLemma(l)
				res.ctxs = append(res.ctxs, fc)
				if fc.translateFail != "" {
					res.translate = append(res.translate, "lemma."+ln+": "+fc.translateFail)
				}
				res.obls = append(res.obls, fc.obls...)
			}
		}
		if !found {
			res.translate = append(res.translate, "lemma."+ln+": lemma not found in the contract files")
		}
	}
	for _, g := range spec.Grounds {
		if g == "guarded" {
			ver := map[string]bool{}
			for _, k := range keys {
				if c := r.w.Contracts[k]; c == nil || c.Opts["noverify"] == "" {
					ver[k] = true
				}
			}
			// a function that touches a guarded map but is not on the property's list and has no contract
			// (a new helper, a new method) is verified here for the lock discipline alone
			for _, t := range r.w.guardedTouchers() {
				if ver[t] || seen[t] || r.w.Contracts[t] != nil || r.w.testOnlyExempt(t, map[string]bool{}) || r.w.verifiedInPlace(t, ver, map[string]bool{}) {
					continue
				}
				tfc := r.w.verifyFunc(t)
				res.ctxs = append(res.ctxs, tfc)
				if tfc.translateFail != "" {
					res.translate = append(res.translate, shortKey(t)+": "+tfc.translateFail)
					continue
				}
				for _, o := range tfc.obls {
					if strings.HasPrefix(o.Kind, "lock.") {
						res.obls = append(res.obls, o)
					}
				}
				ver[t] = true
			}
			fc := r.w.groundGuardedAccess(ver)
			res.ctxs = append(res.ctxs, fc)
			res.obls = append(res.obls, fc.obls...)
		}
		if g == "options" {
			fc := r.w.groundOptions()
			res.ctxs = append(res.ctxs, fc)
			res.obls = append(res.obls, fc.obls...)
		}
		if g == "fnvkey" {
			fc := r.w.groundFNVKey()
			res.ctxs = append(res.ctxs, fc)
			res.obls = append(res.obls, fc.obls...)
		}
		if g == "cachetypes" {
			fc := r.w.groundCacheTypes()
			res.ctxs = append(res.ctxs, fc)
			res.obls = append(res.obls, fc.obls...)
		}
		if g == "jsonshape" {
			fc := r.w.groundJSONShape()
			res.ctxs = append(res.ctxs, fc)
			res.obls = append(res.obls, fc.obls...)
		}
		if g == "infomodel" {
			fc := r.w.groundInfoModel()
			res.ctxs = append(res.ctxs, fc)
			if fc.translateFail != "" {
				res.translate = append(res.translate, "ipfix.InfoModel: "+fc.translateFail)
			}
			res.obls = append(res.obls, fc.obls...)
		}
	}
	// global invariants of every package that contributes a function
	pkgSeen := map[string]bool{}
	for _, k := range keys {
		if p := r.w.FuncPkg[k]; p != nil && !pkgSeen[p.PkgPath] {
			pkgSeen[p.PkgPath] = true
			has := false
			for _, gi := range r.w.GlobalInvs {
				if gi.Pkg == p {
					has = true
				}
			}
			if has {
				fc := r.w.verifyGlobalInvs(p.PkgPath)
				res.ctxs = append(res.ctxs, fc)
				if fc.translateFail != "" {
					res.translate = append(res.translate, shortKey(p.PkgPath)+".globals: "+fc.translateFail)
				}
				res.obls = append(res.obls, fc.obls...)
			}
		}
	}
	for _, k := range keys {
		if r.w.FuncDecls[k] == nil {
			res.translate = append(res.translate, shortKey(k)+": function not found in the repository")
			continue
		}
		if spec, isIntr := r.w.Intrinsics[k]; isIntr {
			// a repo function declared intrinsic must be a plain wrapper of the library intrinsic
			if msg := r.w.checkIntrinsicWrapper(k, spec); msg != "" {
				res.translate = append(res.translate, shortKey(k)+": "+msg)
			}
			continue
		}
		if c := r.w.Contracts[k]; c != nil && c.Opts["noverify"] != "" {
			res.skipped = append(res.skipped, shortKey(k)+": "+c.Opts["noverify"])
			continue
		}
		if r.w.Contracts[k] == nil && !explicit[k] && r.w.isCalledHelper(k) {
			// an unexported function without a written contract that the module calls: it is executed in
			// place at each call site of a verified function, under the conditions that hold there
			res.skipped = append(res.skipped, shortKey(k)+": no written contract; verified in place at its call sites")
			continue
		}
		fc := r.w.verifyFunc(k)
		res.ctxs = append(res.ctxs, fc)
		if fc.translateFail != "" {
			res.translate = append(res.translate, shortKey(k)+": "+fc.translateFail)
			continue
		}
		for _, o := range fc.obls {
			if kindCounts(spec, o.Kind) {
				res.obls = append(res.obls, o)
			}
		}
		if r.canary {
			// vacuity canary: "false" must not be provable at any return
			for i, st := range fc.returns {
				if strings.Contains(" "+fc.contract.Opts["unreachable"]+" ", fmt.Sprintf(" cover.ret.%d ", i+1)) {
					continue
				}
				o := &Obligation{Name: fmt.Sprintf("%s#canary.%d", fc.funcShort(), i+1), Func: fc.funcShort(), Kind: "canary", Goal: "false", Guard: st.guard, NDecl: len(fc.decls), NFact: len(fc.facts), fc: fc, Cover: true, Text: "assert false must fail at return"}
				res.obls = append(res.obls, o)
			}
		}
	}
	scratch, _ := os.MkdirTemp("", "govc")
	if !r.keep {
		defer os.RemoveAll(scratch)
	} else {
		fmt.Fprintln(os.Stderr, "scratch:", scratch)
	}
	timeout := 10
	if r.tier == "thorough" {
		timeout = 60
	}
	// everything that extends the (shared, unsynchronised) registry happens before the parallel phase
	r.w.Reg.SortOf(r.w.jsonType())
	r.w.Reg.SortOf(types.NewSlice(types.Typ[types.Uint8]))
	r.w.axiomTexts()
	if r.dump != "" {
		for _, o := range res.obls {
			if o.Name == r.dump {
				os.WriteFile("/tmp/govc_dump.smt2", []byte(o.Query(false)), 0644)
				fmt.Fprintln(os.Stderr, "query written to /tmp/govc_dump.smt2")
			}
		}
	}
	dischargeAll(res.obls, dischargeOpts{timeoutS: timeout, allAgree: r.tier == "thorough", scratch: scratch, parallel: 16})
	for _, o := range res.obls {
		res.solverMs += o.TimeMs
		if !o.OK() {
			res.failed++
		}
	}
	res.failed += len(res.translate)
	return res
}

func kindCounts(spec *PropSpec, kind string) bool {
	if strings.HasPrefix(kind, "cover") {
		return true
	}
	if len(spec.Kinds) == 0 {
		return true
	}
	// "!kind" entries exclude; with only exclusions everything else counts
	neg, pos := false, false
	for _, k := range spec.Kinds {
		if strings.HasPrefix(k, "!") {
			neg = true
			k = k[1:]
			if k == kind || (strings.HasSuffix(k, "*") && strings.HasPrefix(kind, strings.TrimSuffix(k, "*"))) {
				return false
			}
		} else {
			pos = true
		}
	}
	if neg && !pos {
		return true
	}
	for _, k := range spec.Kinds {
		if k == kind || (strings.HasSuffix(k, "*") && strings.HasPrefix(kind, strings.TrimSuffix(k, "*"))) {
			return true
		}
	}
	return false
}

func (r *Runner) printSummary(res *runResult) {
	for _, t := range res.translate {
		fmt.Println("TRANSLATE-FAIL", t)
	}
	n, ok := 0, 0
	for _, o := range res.obls {
		n++
		if o.OK() {
			ok++
			if r.verbose {
				fmt.Printf("  ok   %-70s %s %dms\n", o.Name, o.Solver, o.TimeMs)
			}
		} else {
			fmt.Printf("  FAIL %-70s status=%s at %s\n       %s\n", o.Name, o.Status, o.Pos, o.Text)
			if r.verbose {
				fmt.Println("      ", strings.ReplaceAll(truncate(o.RawOut, 400), "\n", "\n       "))
			}
		}
	}
	fmt.Printf("obligations=%d ok=%d failed=%d translate-failures=%d solver=%dms wall=%.1fs (load %.1fs)\n", n, ok, n-ok, len(res.translate), res.solverMs, time.Since(r.t0).Seconds(), float64(r.loadMs)/1000)
	for _, p := range r.w.Problems {
		fmt.Println("PROBLEM", p)
	}
}

// isCalledHelper: an unexported function or method of the repository that some other repository function calls.
func (w *World) isCalledHelper(key string) bool {
	if w.calledFuncs == nil {
		w.calledFuncs = map[string]bool{}
		w.callers = map[string][]string{}
		for k, decl := range w.FuncDecls {
			pkg := w.FuncPkg[k]
			if pkg == nil || decl.Body == nil {
				continue
			}
			ast.Inspect(decl.Body, func(n ast.Node) bool {
				call, ok := n.(*ast.CallExpr)
				if !ok {
					return true
				}
				var id *ast.Ident
				switch f := unparen(call.Fun).(type) {
				case *ast.Ident:
					id = f
				case *ast.SelectorExpr:
					id = f.Sel
				}
				if id != nil {
					if fn, ok := pkg.TypesInfo.ObjectOf(id).(*types.Func); ok && fn.FullName() != k {
						w.calledFuncs[fn.FullName()] = true
						w.callers[fn.FullName()] = append(w.callers[fn.FullName()], k)
					}
				}
				return true
			})
		}
	}
	fn := w.FuncObj[key]
	return fn != nil && !fn.Exported() && w.calledFuncs[key]
}

// genNames writes, below every `//@ func` line of the hook files, the snapshot of the function's declared names.
func (w *World) genNames(repo string) {
	type edit struct {
		line  int
		names string
	}
	byFile := map[string][]edit{}
	loopEdits := map[string][]edit{}
	for key, c := range w.Contracts {
		decl, pkg, obj := w.FuncDecls[key], w.FuncPkg[key], w.FuncObj[key]
		if c.Trusted || decl == nil || pkg == nil || obj == nil {
			continue
		}
		i := strings.LastIndex(c.Src, ":")
		if i < 0 {
			continue
		}
		ln, _ := strconv.Atoi(c.Src[i+1:])
		file := filepath.Join(filepath.Dir(w.Fset.Position(decl.Pos()).Filename), filepath.Base(c.Src[:i]))
		byFile[file] = append(byFile[file], edit{ln, strings.Join(declaredNames(decl, pkg.TypesInfo, obj), " ")})
		// loop headers: run the symbolic executor once to learn which loop each loop contract applies to
		if len(c.Loops) > 0 && c.Opts["noverify"] == "" {
			for _, lc := range c.Loops {
				lc.Sig = "" // match by ordinal while recording
			}
			fc := w.verifyFunc(key)
			for ord, lc := range c.Loops {
				j := strings.LastIndex(lc.Src, ":")
				if j < 0 {
					continue
				}
				lln, _ := strconv.Atoi(lc.Src[j+1:])
				if sig, ok := fc.loopSigs[ord]; ok && sig != "" {
					loopEdits[file] = append(loopEdits[file], edit{lln, fmt.Sprintf("//@   loop %d @ %s", ord, sig)})
				}
			}
		}
	}
	for file, eds := range byFile {
		raw, err := os.ReadFile(file)
		if err != nil {
			fmt.Fprintln(os.Stderr, "govc:", err)
			continue
		}
		lines := strings.Split(string(raw), "\n")
		for _, e := range loopEdits[file] {
			if e.line-1 < len(lines) && strings.HasPrefix(strings.TrimSpace(strings.TrimPrefix(lines[e.line-1], "//@")), "loop ") {
				lines[e.line-1] = e.names
			}
		}
		at := map[int]string{}
		for _, e := range eds {
			at[e.line] = e.names
		}
		var out []string
		for i := 0; i < len(lines); i++ {
			out = append(out, lines[i])
			if names, ok := at[i+1]; ok {
				if i+1 < len(lines) && strings.HasPrefix(strings.TrimSpace(strings.TrimPrefix(lines[i+1], "//@")), "names") && strings.HasPrefix(lines[i+1], "//@") {
					i++ // replace the old snapshot
				}
				if names != "" {
					out = append(out, "//@   names "+names)
				}
			}
		}
		text := strings.Join(out, "\n")
		// field-name snapshots of the package's struct types
		const fb, fe = "// >>> field snapshots (govc -gen-names)", "// <<< field snapshots"
		if i := strings.Index(text, fb); i >= 0 {
			if j := strings.Index(text, fe); j > i {
				text = strings.TrimRight(text[:i], "\n") + "\n" + strings.TrimLeft(text[j+len(fe):], "\n")
			}
		}
		var pkg *packages.Package
		for _, p := range w.Pkgs {
			if len(p.GoFiles) > 0 && filepath.Dir(p.GoFiles[0]) == filepath.Dir(file) {
				pkg = p
			}
		}
		if pkg != nil {
			var lines []string
			names := pkg.Types.Scope().Names()
			sort.Strings(names)
			for _, n := range names {
				tn, ok := pkg.Types.Scope().Lookup(n).(*types.TypeName)
				if !ok {
					continue
				}
				st, ok := tn.Type().Underlying().(*types.Struct)
				if !ok || st.NumFields() == 0 {
					continue
				}
				var fs []string
				for i := 0; i < st.NumFields(); i++ {
					fs = append(fs, st.Field(i).Name())
				}
				lines = append(lines, "//@ fields "+n+" "+strings.Join(fs, " "))
			}
			if len(lines) > 0 {
				text = strings.TrimRight(text, "\n") + "\n\n" + fb + "\n" + strings.Join(lines, "\n") + "\n" + fe + "\n"
			}
		}
		if err := os.WriteFile(file, []byte(text), 0644); err != nil {
			fmt.Fprintln(os.Stderr, "govc:", err)
		}
		fmt.Println("updated", file, len(eds), "contracts")
	}
}

// verifiedInPlace: a helper without a written contract all of whose callers are verified (directly or, again, in
// place): its body is part of their verification conditions.
func (w *World) verifiedInPlace(key string, verified map[string]bool, seen map[string]bool) bool {
	if seen[key] || w.Contracts[key] != nil || !w.isCalledHelper(key) {
		return false
	}
	seen[key] = true
	for _, c := range w.callers[key] {
		if !verified[c] && !w.verifiedInPlace(c, verified, seen) {
			return false
		}
	}
	return len(w.callers[key]) > 0
}

// checkMulti verifies the union of the functions, lemmas and grounds of several properties in one run and
// attributes every failure to the properties whose map entry covers it. Known findings are not failures.
func (r *Runner) checkMulti(specs map[string]*PropSpec, ids []string) int {
	union := &PropSpec{ID: "multi"}
	seenF, seenL, seenG := map[string]bool{}, map[string]bool{}, map[string]bool{}
	owner := map[string]map[string]bool{} // function key / "lemma.x" / ground context -> properties
	add := func(k, id string) {
		if owner[k] == nil {
			owner[k] = map[string]bool{}
		}
		owner[k][id] = true
	}
	groundCtx := map[string]string{"infomodel": "ipfix.InfoModel", "jsonshape": "sflow.jsonshape", "guarded": "guarded", "cachetypes": "cachetypes", "fnvkey": "ipfix.cachekey", "options": "vflow.options"}
	for _, id := range ids {
		sp := specs[id]
		if sp == nil {
			continue
		}
		for _, f := range sp.Funcs {
			if !seenF[f] {
				seenF[f] = true
				union.Funcs = append(union.Funcs, f)
			}
			keys := []string{f}
			if r.w.FuncDecls[f] == nil {
				keys = r.resolveFuncs(f)
			}
			for _, k := range keys {
				add(shortKey(k), id)
				if p := r.w.FuncPkg[k]; p != nil {
					add(shortKey(p.PkgPath)+".globals", id)
				}
			}
			if len(keys) == 0 {
				add(f, id)
			}
		}
		for _, l := range sp.Lemmas {
			if !seenL[l] {
				seenL[l] = true
				union.Lemmas = append(union.Lemmas, l)
			}
			add("lemma."+l, id)
		}
		for _, g := range sp.Grounds {
			if !seenG[g] {
				seenG[g] = true
				union.Grounds = append(union.Grounds, g)
			}
			add(groundCtx[g], id)
		}
	}
	res := r.run(union)
	known := loadKnown(r.verif)
	isKnown := map[string]bool{}
	for _, k := range known.Findings {
		isKnown[k.Obligation] = true
	}
	fails := map[string][]string{}
	note := func(fn, kind, what string) {
		ps := owner[fn]
		if len(ps) == 0 {
			// attribute to everything (safe side)
			for _, id := range ids {
				fails[id] = append(fails[id], what)
			}
			return
		}
		for id := range ps {
			if kind != "" && specs[id] != nil && !kindCounts(specs[id], kind) {
				continue
			}
			fails[id] = append(fails[id], what)
		}
	}
	for _, o := range res.obls {
		if o.OK() || isKnown[o.Name] {
			continue
		}
		note(o.Func, o.Kind, fmt.Sprintf("%s [%s]", o.Name, o.Status))
	}
	for _, t := range res.translate {
		fn := strings.SplitN(t, ":", 2)[0]
		note(fn, "", "translate: "+truncate(t, 200))
	}
	rc := 0
	for _, id := range ids {
		fs := fails[id]
		first := ""
		if len(fs) > 0 {
			rc = 1
			first = fs[0]
			if len(fs) > 1 {
				first += " | " + fs[1]
			}
		}
		fmt.Printf("MULTI %s violations=%d %s\n", id, len(fs), first)
	}
	retried := 0
	for _, o := range res.obls {
		if strings.HasPrefix(o.RawOut, "first attempt") {
			retried++
			if r.verbose {
				fmt.Printf("  retried: %s -> %s (%s)\n", o.Name, o.Status, o.Solver)
			}
		}
	}
	fmt.Printf("multi: obligations=%d retried=%d wall=%.1fs\n", len(res.obls), retried, time.Since(r.t0).Seconds())
	return rc
}
