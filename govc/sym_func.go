package main

// Per-function verification: entry state from the precondition, body, postconditions, frame.

import (
	"fmt"
	"go/ast"
	"go/token"
	"go/types"
	"regexp"
	"strconv"
	"strings"
)

// cevalIn evaluates a contract clause, turning evaluation errors into translate failures.
func (fc *FuncCtx) cevalIn(env *CEnv, c *Clause, n ast.Node) (t Term) {
	defer func() {
		if r := recover(); r != nil {
			if ce, ok := r.(cevalErr); ok {
				panic(translateErr(fmt.Sprintf("contract clause %s (%s): %s", c.Src, c.Text, string(ce))))
			}
			panic(r)
		}
	}()
	var side []string
	setSide(env, &side)
	def := func(t Term) Term { return fc.compact(t) }
	env.define = def
	for _, o := range []*CEnv{env.old, env.pre, env.iter} {
		if o != nil {
			o.define = def
		}
	}
	t = env.eval(c.Expr)
	seen := map[string]bool{}
	for _, f := range side {
		if !seen[f] && !fc.sideSeen[f] {
			seen[f] = true
			fc.sideSeen[f] = true
			fc.facts = append(fc.facts, f) // every cell of a real []byte / []uintN is in range
		}
	}
	return t
}

// codeEnv exposes the variables visible at a source position by name.
func (fc *FuncCtx) codeEnv(st *State, at token.Pos) *CEnv {
	env := fc.w.newEnv(fc.pkg)
	env.old = fc.oldEnv
	env.globalOf = func(gv *types.Var) (Term, bool) { return fc.readGlobal(st, gv), true }
	scope := fc.pkg.Types.Scope().Innermost(at)
	env.lookup = func(name string) (Term, bool) {
		if g, ok := st.ghost[name]; ok {
			return g, true
		}
		if v := fc.rangeAlias[name]; v != nil {
			if t, ok := st.vars[v]; ok {
				return mkMath(t.S), true
			}
		}
		if scope != nil {
			if _, obj := scope.LookupParent(name, at); obj != nil {
				if v, ok := obj.(*types.Var); ok && !(fc.renamed[v] && fc.nameAlias[name] != nil) {
					if a, ok := st.alias[v]; ok {
						saved := fc.quiet
						fc.quiet = true
						defer func() { fc.quiet = saved }()
						return fc.eval(st, a), true
					}
					if t, ok := st.vars[v]; ok {
						return t, true
					}
					if !fc.isLocal(v) {
						return fc.readGlobal(st, v), true
					}
				}
			}
		}
		if v := fc.nameAlias[name]; v != nil {
			// the variable was renamed after the contract was written
			if a, ok := st.alias[v]; ok {
				saved := fc.quiet
				fc.quiet = true
				defer func() { fc.quiet = saved }()
				return fc.eval(st, a), true
			}
			if t, ok := st.vars[v]; ok {
				return t, true
			}
		}
		return Term{}, false
	}
	return env
}

// nonblockingOpt: the function's own "opt nonblocking" or its package's "pkgopt nonblocking".
func (fc *FuncCtx) nonblockingOpt() string {
	if fc.contract != nil && fc.contract.Opts["nonblocking"] != "" {
		return fc.contract.Opts["nonblocking"]
	}
	if fc.pkg != nil {
		return fc.w.PkgOpts[fc.pkg.PkgPath]["nonblocking"]
	}
	return ""
}

func (w *World) verifyFunc(key string) (fc *FuncCtx) {
	decl := w.FuncDecls[key]
	pkg := w.FuncPkg[key]
	obj := w.FuncObj[key]
	fc = &FuncCtx{w: w, pkg: pkg, info: pkg.TypesInfo, key: key, decl: decl, obj: obj, contract: w.Contracts[key], counter: map[string]int{}, allVars: map[*types.Var]bool{}, usedContracts: map[string]bool{}, sideSeen: map[string]bool{}}
	defer func() {
		if r := recover(); r != nil {
			if te, ok := r.(translateErr); ok {
				fc.translateFail = string(te)
				return
			}
			if ce, ok := r.(cevalErr); ok {
				fc.translateFail = "contract: " + string(ce)
				return
			}
			panic(r)
		}
	}()
	fc.defs = map[string]string{}
	w.Reg.curDefs = fc.defs
	if fc.contract == nil {
		fc.contract = &Contract{Key: key, Pkg: pkg, Loops: map[int]*LoopContract{}, Opts: map[string]string{}}
	}
	if len(fc.contract.Names) > 0 {
		cur := declaredVars(decl, pkg.TypesInfo, obj)
		if len(cur) == len(fc.contract.Names) {
			fc.nameAlias = map[string]*types.Var{}
			fc.renamed = map[*types.Var]bool{}
			// a renaming: the old name is gone and the new name is new (reordered declarations are not renamings)
			oldNames, newNames := map[string]bool{}, map[string]bool{}
			for i, v := range cur {
				oldNames[fc.contract.Names[i]] = true
				if v != nil {
					newNames[v.Name()] = true
				}
			}
			for i, v := range cur {
				if v != nil && (newNames[fc.contract.Names[i]] || oldNames[v.Name()]) {
					continue
				}
				if v != nil && fc.contract.Names[i] != "_" && fc.contract.Names[i] != v.Name() {
					fc.nameAlias[fc.contract.Names[i]] = v
					fc.renamed[v] = true
				}
			}
		}
	}
	ast.Inspect(decl, func(n ast.Node) bool {
		if id, ok := n.(*ast.Ident); ok {
			if v, ok := fc.info.Defs[id].(*types.Var); ok {
				fc.allVars[v] = true
			}
		}
		return true
	})
	sig := obj.Type().(*types.Signature)
	st := &State{guard: "true", vars: map[types.Object]Term{}, alias: map[types.Object]ast.Expr{}, ghost: map[string]Term{}, held: map[string]string{}, exprAlias: map[types.Object]ast.Expr{}, regions: map[string]region{}, released: map[string]bool{}}
	fc.oldState = st // placeholder for globalInit during entry
	entryEnv := w.newEnv(pkg)
	bind := func(v *types.Var, name string) {
		t := fc.fresh("in_"+name, v.Type())
		st.vars[v] = t
		entryEnv.vars[name] = t
		fc.inputs = append(fc.inputs, InputSym{Name: name, Term: t})
		fc.paramVars = append(fc.paramVars, v)
		fc.paramNames = append(fc.paramNames, name)
	}
	recvName, pnames, rnames := contractParamNames(obj, fc.contract)
	if sig.Recv() != nil {
		bind(sig.Recv(), recvName)
		if _, isPtr := sig.Recv().Type().Underlying().(*types.Pointer); isPtr {
			// a method body only runs with the receiver it was called on; nil receivers are the caller's obligation
			fc.assume(st, not(fc.reg().isNil(st.vars[sig.Recv()])))
			// a non-nil pointer is ref(deref(p)): in this form the fields of the pointee can be followed through
			// updates and merges (struct receivers with many fields, see mergeFieldwise)
			if pt, ok := sig.Recv().Type().Underlying().(*types.Pointer); ok {
				if stt, isStruct := pt.Elem().Underlying().(*types.Struct); isStruct && stt.NumFields() >= 16 {
					in := st.vars[sig.Recv()]
					st.vars[sig.Recv()] = fc.reg().ref(Term{S: "(deref_" + fc.reg().SortOf(in.T) + " " + in.S + ")", T: pt.Elem()}, in.T)
				}
			}
		}
	}
	for i := 0; i < sig.Params().Len(); i++ {
		bind(sig.Params().At(i), pnames[i])
	}
	fc.rnames = rnames
	for i := 0; i < sig.Results().Len(); i++ {
		rv := sig.Results().At(i)
		fc.resultVars = append(fc.resultVars, rv)
		if rv.Name() != "" && rv.Name() != "_" {
			fc.namedResults = true
		}
		st.vars[rv] = fc.reg().Zero(rv.Type())
	}
	st.ghost["jslast"] = fc.fresh("jslast", types.Typ[types.String])
	// ghosts <Callee>_err named by the contract start as "no failed call yet"
	for _, cl := range append(append([]*Clause{}, fc.contract.ExitAsserts...), fc.contract.Ensures...) {
		for _, m := range ghostErrRe.FindAllString(cl.Text, -1) {
			if _, have := st.ghost[m]; !have {
				st.ghost[m] = fc.reg().Zero(types.Universe.Lookup("error").Type())
			}
		}
	}
	for _, want := range strings.Fields(fc.contract.Opts["countsends"]) {
		st.ghost["sends_"+want] = fc.fresh("sends_"+want, tInt)
		ast.Inspect(decl, func(n ast.Node) bool {
			if ss, ok := n.(*ast.SendStmt); ok {
				if ce, ok := unparen(ss.Chan).(*ast.CallExpr); ok {
					if se, ok := unparen(ce.Fun).(*ast.SelectorExpr); ok && se.Sel.Name == want {
						if _, have := st.ghost["lastsent_"+want]; !have {
							if ct, ok := fc.typeOf(ss.Chan).Underlying().(*types.Chan); ok {
								st.ghost["lastsent_"+want] = fc.fresh("lastsent_"+want, ct.Elem())
							}
						}
					}
				}
			}
			return true
		})
	}
	for _, want := range strings.Fields(fc.contract.Opts["countcalls"]) {
		st.ghost["calls_"+want] = fc.fresh("calls_"+want, tInt)
	}
	for _, want := range strings.Fields(fc.contract.Opts["countrecvs"]) {
		st.ghost["recvs_"+want] = fc.fresh("recvs_"+want, tInt)
		// lastrecv_<chan> for a channel held in a parameter or local variable
		ast.Inspect(decl, func(n ast.Node) bool {
			if ue, ok := n.(*ast.UnaryExpr); ok && ue.Op == token.ARROW {
				if id, ok := unparen(ue.X).(*ast.Ident); ok && id.Name == want {
					if ct, ok := fc.typeOf(ue.X).Underlying().(*types.Chan); ok {
						if _, have := st.ghost["lastrecv_"+want]; !have {
							st.ghost["lastrecv_"+want] = fc.fresh("lastrecv_"+want, ct.Elem())
						}
					}
				}
			}
			return true
		})
	}
	for _, want := range strings.Fields(fc.contract.Opts["lastargs"]) {
		ast.Inspect(decl, func(n ast.Node) bool {
			call, ok := n.(*ast.CallExpr)
			if !ok {
				return true
			}
			fn, _ := fc.calleeOf(call)
			if fn == nil || fn.Name() != want {
				return true
			}
			sg := fn.Type().(*types.Signature)
			for i := 0; i < sg.Params().Len(); i++ {
				name := want + "_arg" + strconv.Itoa(i)
				if _, have := st.ghost[name]; !have {
					st.ghost[name] = fc.fresh(name, sg.Params().At(i).Type())
				}
			}
			return true
		})
	}
	for _, want := range strings.Fields(fc.contract.Opts["lasterr"]) {
		st.ghost[want+"_err"] = fc.reg().Zero(types.Universe.Lookup("error").Type())
	}
	// event counters: one ghost counter per package-level channel the function sends on
	ast.Inspect(decl, func(n ast.Node) bool {
		if ss, ok := n.(*ast.SendStmt); ok {
			if key := fc.globalKey(ss.Chan); key != "" {
				name := "sends_" + key[strings.LastIndex(key, ".")+1:]
				if _, have := st.ghost[name]; !have {
					st.ghost[name] = fc.fresh(name, tInt)
				}
			} else if id, ok := unparen(ss.Chan).(*ast.Ident); ok {
				// a channel held in a local variable or parameter: sends_<name>, lastsent_<name>
				if v, ok := fc.info.ObjectOf(id).(*types.Var); ok && fc.isLocal(v) {
					name := "sends_" + id.Name
					if _, have := st.ghost[name]; !have {
						st.ghost[name] = fc.fresh(name, tInt)
						if ct, ok := v.Type().Underlying().(*types.Chan); ok {
							st.ghost["lastsent_"+id.Name] = fc.fresh("lastsent_"+id.Name, ct.Elem())
						}
					}
				}
			}
		}
		return true
	})
	fc.bindGlobals(st, entryEnv, fc.contract)
	for _, gi := range w.GlobalInvs {
		// global invariants are proved once per package (verifyGlobalInvs) and hold everywhere
		genv := w.newEnv(gi.Pkg)
		if gi.Pkg == nil {
			genv.pkg = pkg
		}
		fc.bindGlobals(st, genv, &Contract{Pkg: gi.Pkg})
		t := fc.cevalIn(genv, gi.Clause, decl)
		fc.assume(st, t.S)
	}
	for _, r := range fc.contract.Requires {
		t := fc.cevalIn(entryEnv, r, decl)
		fc.assume(st, t.S)
	}
	fc.oldState = st.clone()
	// old(e) reads the entry state, not the state object execution goes on mutating
	fc.bindGlobals(fc.oldState, entryEnv, fc.contract)
	fc.oldEnv = entryEnv
	fc.cover(st, "cover.pre", decl, "precondition satisfiable")
	if why := fc.contract.Opts["noglobals"]; why != "" {
		// `opt noglobals`: what the function hands out is built from its arguments and fresh objects only: it refers
		// to no package-level variable (a value kept in one would be shared between its callers)
		seen := map[string]bool{}
		// the types a result (or a field of a result struct) can hold
		var sinks []types.Type
		for i := 0; i < sig.Results().Len(); i++ {
			rt := sig.Results().At(i).Type()
			sinks = append(sinks, rt)
			if pt, ok := rt.Underlying().(*types.Pointer); ok {
				rt = pt.Elem()
			}
			if stt, ok := rt.Underlying().(*types.Struct); ok {
				for j := 0; j < stt.NumFields(); j++ {
					sinks = append(sinks, stt.Field(j).Type())
				}
			}
		}
		// a package-level variable matters when it holds, directly or as an element, something a result could hold
		// (a logger or a counter the constructor merely uses is not handed out)
		var couldFlow func(t types.Type, depth int) bool
		couldFlow = func(t types.Type, depth int) bool {
			for _, s := range sinks {
				if _, basic := s.Underlying().(*types.Basic); basic {
					continue
				}
				if types.AssignableTo(t, s) {
					return true
				}
			}
			if depth >= 2 {
				return false
			}
			switch u := t.Underlying().(type) {
			case *types.Map:
				return couldFlow(u.Elem(), depth+1)
			case *types.Slice:
				return couldFlow(u.Elem(), depth+1)
			case *types.Array:
				return couldFlow(u.Elem(), depth+1)
			case *types.Pointer:
				return couldFlow(u.Elem(), depth+1)
			}
			return false
		}
		ast.Inspect(decl.Body, func(n ast.Node) bool {
			id, ok := n.(*ast.Ident)
			if !ok {
				return true
			}
			if v, ok := fc.info.Uses[id].(*types.Var); ok && !v.IsField() && v.Pkg() != nil && v.Parent() == v.Pkg().Scope() && !seen[v.Name()] && couldFlow(v.Type(), 0) {
				seen[v.Name()] = true
				fc.oblige(st, "noglobals", v.Name(), "false", id, "refers to the package-level variable "+v.Name()+", which can hold what the function hands out: "+why)
			}
			return true
		})
	}
	end := fc.exec(st, decl.Body)
	if !end.dead {
		// implicit return at the end of the body
		if sig.Results().Len() > 0 && !fc.namedResults {
			fc.fail(decl, "missing return")
		}
		fc.execReturn(end, &ast.ReturnStmt{Return: decl.Body.Rbrace})
	}
	for cl, seen := range fc.leaveSeen {
		if !seen {
			fc.fail(decl, "contract clause %s (%s): its variables are in scope at no return statement of the loop", cl.Src, cl.Text)
		}
	}
	for ord := range fc.contract.Loops {
		if ord > fc.loopOrd {
			// a loop contract without a loop proves nothing and assumes nothing; it is reported, not fatal
			fc.notes = append(fc.notes, fmt.Sprintf("contract names loop %d, the function has %d loops", ord, fc.loopOrd))
		}
	}
	return fc
}

// checkPost asserts the postconditions and the frame at one return site.
func (fc *FuncCtx) checkPost(st *State, vals []Term, n ast.Node) {
	fc.retOrd++
	ro := strconv.Itoa(fc.retOrd)
	fc.cover(st, "cover.ret", n, "return reachable")
	fc.checkAliasClauses(st, vals, n)
	env := fc.w.newEnv(fc.pkg)
	env.old = fc.oldEnv
	sig := fc.obj.Type().(*types.Signature)
	for i, v := range fc.paramVars {
		name := fc.paramNames[i]
		final, ok := st.vars[v]
		_, isPtr := v.Type().Underlying().(*types.Pointer)
		_, isIfaceAs := fc.reg().ifaceAs[fc.reg().typeKey(v.Type())]
		contentsModified := false
		for _, m := range fc.contract.Modifies {
			if root, path := modPath(m.Expr); root == name && len(path) == 1 && path[0] == "[]" {
				contentsModified = true // a slice parameter written in place: ensures speak about the final contents
			}
		}
		if ok && (isPtr || isIfaceAs || contentsModified) {
			env.vars[name] = final
		} else {
			env.vars[name] = fc.oldEnv.vars[name]
		}
	}
	for i := range vals {
		env.vars[fc.rnames[i]] = vals[i]
		if i == 0 {
			env.vars["result"] = vals[i]
		}
	}
	for k, g := range st.ghost {
		if _, clash := env.vars[k]; !clash {
			env.vars[k] = g
		}
	}
	fc.bindGlobals(st, env, fc.contract)
	var outs []InputSym
	for i := range vals {
		outs = append(outs, InputSym{Name: fc.rnames[i], Term: vals[i]})
	}
	for i, v := range fc.paramVars {
		if _, isPtr := v.Type().Underlying().(*types.Pointer); isPtr {
			if final, ok := st.vars[v]; ok {
				outs = append(outs, InputSym{Name: "final " + fc.paramNames[i], Term: final})
			}
		}
	}
	fc.curOuts = outs
	defer func() { fc.curOuts = nil }()
	for i, e := range fc.contract.Ensures {
		if fc.contract.Opts["trustpost"] != "" {
			break // postconditions are assumed, not proved (listed as an assumption in the evidence)
		}
		if strings.HasPrefix(e.Tag, "trusted") {
			continue // an assumed clause: exported to callers, not proved here, listed in the evidence
		}
		t := fc.cevalIn(env, e, n)
		site := "ens" + strconv.Itoa(i+1)
		if e.Tag != "" {
			site = e.Tag
		}
		fc.oblige(st, "post", site+".ret"+ro, t.S, n, e.Text)
	}
	// every lock taken by the function is released at its returns
	for owner, mode := range st.held {
		fc.oblige(st, "lock.held", owner+".released.ret"+ro, "false", n, "lock of "+owner+" (mode "+mode+") is still held at return")
	}
	// exit assertions: like ensures, with the function's locals in scope (not exported to callers)
	for i, e := range fc.contract.ExitAsserts {
		lenv := fc.codeEnv(st, fc.decl.Body.Rbrace-1)
		for k, v := range env.vars {
			lenv.vars[k] = v
		}
		t := fc.cevalIn(lenv, e, n)
		site := "exit" + strconv.Itoa(i+1)
		if e.Tag != "" {
			site = e.Tag
		}
		fc.oblige(st, "post", site+".ret"+ro, t.S, n, e.Text)
	}
	// leave clauses of the contracted loops this return statement is inside of
	for k := len(fc.loopFrames) - 1; k >= 0; k-- {
		fr := fc.loopFrames[k]
		for i, lv := range fr.lc.Leaves {
			lenv := fc.loopEnv(st, fr.pre, n.Pos())
			lenv.iter = fc.codeEnv(fr.bodyStart, fr.at)
			if lenv.old == nil {
				lenv.old = fc.oldEnv
			}
			for j := range vals {
				lenv.vars["ret"+strconv.Itoa(j+1)] = vals[j]
			}
			// a leave clause speaks about the returns at which its variables are in scope (at least one)
			t, inScope := fc.cevalInScope(lenv, lv, n)
			if fc.leaveSeen == nil {
				fc.leaveSeen = map[*Clause]bool{}
			}
			fc.leaveSeen[lv] = fc.leaveSeen[lv] || inScope
			if !inScope {
				continue
			}
			site := "loop" + strconv.Itoa(fr.ord) + ".leave" + strconv.Itoa(i+1)
			if lv.Tag != "" {
				site = "loop" + strconv.Itoa(fr.ord) + "." + lv.Tag
			}
			fc.oblige(st, "step", site+".ret"+ro, t.S, n, lv.Text)
		}
	}
	// frame: pointer parameters change only along the modifies paths
	if fc.contract.Opts["noframe"] != "" {
		return
	}
	byRoot := map[string][][]string{}
	for _, m := range fc.contract.Modifies {
		root, path := modPath(m.Expr)
		byRoot[root] = append(byRoot[root], path)
	}
	_ = sig
	for i, v := range fc.paramVars {
		name := fc.paramNames[i]
		_, isPtr := v.Type().Underlying().(*types.Pointer)
		_, isIfaceAs := fc.reg().ifaceAs[fc.reg().typeKey(v.Type())]
		if !isPtr && !isIfaceAs {
			continue
		}
		final, ok := st.vars[v]
		if !ok {
			continue
		}
		old := fc.oldEnv.vars[name]
		expected := old
		whole := false
		for _, p := range byRoot[name] {
			if len(p) == 1 && p[0] == "*" {
				whole = true
			}
		}
		if whole {
			continue
		}
		for _, p := range byRoot[name] {
			p := p
			expected = fc.setPath(expected, p, func(Term) Term { return fc.getPath(final, p) })
		}
		// fields no contract can name are outside the frame
		for _, p := range fc.w.irrelevantPaths(v.Type(), 0) {
			p := p
			expected = fc.compact(fc.setPath(expected, p, func(Term) Term { return fc.getPath(final, p) }))
		}
		if final.S == expected.S {
			continue
		}
		fc.oblige(st, "frame", name+".ret"+ro, implies(not(fc.reg().isNil(old)), eq(final.S, expected.S)), n, "only the locations in the modifies clause of "+name+" change")
	}
	// globals: a verified function may only change globals it lists
	for obj, cur := range st.vars {
		v, ok := obj.(*types.Var)
		if !ok || fc.isLocal(v) || v.IsField() {
			continue
		}
		old, ok := fc.oldState.vars[v]
		if !ok || old.S == cur.S {
			continue
		}
		listed := false
		for root, paths := range byRoot {
			if root == v.Name() || strings.HasSuffix(root, "."+v.Name()) {
				listed = true
			}
			for _, p := range paths {
				if len(p) > 0 && p[0] == v.Name() && v.Pkg() != nil && v.Pkg().Name() == root {
					listed = true // package-qualified global
				}
			}
		}
		if !listed {
			fc.oblige(st, "frame", "global."+v.Name()+".ret"+ro, eq(old.S, cur.S), n, "global "+v.Name()+" not in modifies clause")
		}
	}
}

// stubs refined in the theory files
func (fc *FuncCtx) specialEffects(st *State, call *ast.CallExpr, fn *types.Func, args []boundArg) {
	fc.lockEffects(st, call, fn, args)
}

// verifyLemma turns a lemma (closed formula over typed parameters) into one obligation.
func (w *World) verifyLemma(l *Lemma) (fc *FuncCtx) {
	pkg := l.Pkg
	fc = &FuncCtx{w: w, pkg: pkg, key: "lemma." + l.Name, counter: map[string]int{}, allVars: map[*types.Var]bool{}, usedContracts: map[string]bool{}, sideSeen: map[string]bool{}}
	if pkg != nil {
		fc.info = pkg.TypesInfo
	}
	defer func() {
		if r := recover(); r != nil {
			if te, ok := r.(translateErr); ok {
				fc.translateFail = string(te)
				return
			}
			if ce, ok := r.(cevalErr); ok {
				fc.translateFail = "lemma " + l.Name + ": " + string(ce)
				return
			}
			panic(r)
		}
	}()
	st := &State{guard: "true", vars: map[types.Object]Term{}, alias: map[types.Object]ast.Expr{}, ghost: map[string]Term{}, held: map[string]string{}, exprAlias: map[types.Object]ast.Expr{}, regions: map[string]region{}, released: map[string]bool{}}
	env := w.newEnv(pkg)
	for _, p := range l.Params {
		t := fc.fresh("lem_"+p.Name, p.Type)
		env.vars[p.Name] = t
		fc.inputs = append(fc.inputs, InputSym{Name: p.Name, Term: t})
	}
	body := env.eval(l.Body)
	fc.counter["lemma"] = 0
	o := &Obligation{Name: "lemma." + l.Name, Func: "lemma." + l.Name, Kind: "lemma", Goal: body.S, Guard: st.guard, NDecl: len(fc.decls), NFact: len(fc.facts), Pos: l.Src, Text: l.Text, fc: fc}
	fc.obls = append(fc.obls, o)
	return fc
}

func (fc *FuncCtx) funcShortOr() string { return fc.funcShort() }

// verifyGlobalInvs checks that each global invariant of the package follows from the
// initialisers and that the variables it mentions are never assigned afterwards.
func (w *World) verifyGlobalInvs(pkgPath string) (fc *FuncCtx) {
	pkg := w.Pkgs[pkgPath]
	fc = &FuncCtx{w: w, pkg: pkg, info: pkg.TypesInfo, key: pkgPath + ".globals", counter: map[string]int{}, allVars: map[*types.Var]bool{}, usedContracts: map[string]bool{}, sideSeen: map[string]bool{},
		contract: &Contract{Loops: map[int]*LoopContract{}, Opts: map[string]string{}, Pkg: pkg}}
	defer func() {
		if r := recover(); r != nil {
			if te, ok := r.(translateErr); ok {
				fc.translateFail = string(te)
				return
			}
			if ce, ok := r.(cevalErr); ok {
				fc.translateFail = "globalinv: " + string(ce)
				return
			}
			panic(r)
		}
	}()
	st := &State{guard: "true", vars: map[types.Object]Term{}, alias: map[types.Object]ast.Expr{}, ghost: map[string]Term{}, held: map[string]string{}, exprAlias: map[types.Object]ast.Expr{}, regions: map[string]region{}, released: map[string]bool{}}
	fc.oldState = st
	// initialisers of all package-level variables with a value
	inits := map[*types.Var]ast.Expr{}
	for _, f := range pkg.Syntax {
		for _, d := range f.Decls {
			gd, ok := d.(*ast.GenDecl)
			if !ok || gd.Tok != token.VAR {
				continue
			}
			for _, sp := range gd.Specs {
				vs := sp.(*ast.ValueSpec)
				if len(vs.Values) != len(vs.Names) {
					continue
				}
				for i, n := range vs.Names {
					if v, ok := pkg.TypesInfo.Defs[n].(*types.Var); ok {
						inits[v] = vs.Values[i]
					}
				}
			}
		}
	}
	for _, gi := range w.GlobalInvs {
		if gi.Pkg != pkg {
			continue
		}
		// variables mentioned
		var names []string
		var walk func(e CExpr)
		walk = func(e CExpr) {
			switch x := e.(type) {
			case *CIdent:
				names = append(names, x.Name)
			case *CUnary:
				walk(x.X)
			case *CBinary:
				walk(x.X)
				walk(x.Y)
			case *CCall:
				for _, a := range x.Args {
					walk(a)
				}
			case *CSelect:
				walk(x.X)
			case *CIndex:
				walk(x.X)
				walk(x.I)
			}
		}
		walk(gi.Clause.Expr)
		for _, n := range names {
			gv, ok := pkg.Types.Scope().Lookup(n).(*types.Var)
			if !ok {
				continue
			}
			if where := w.assignedSomewhere(gv); where != "" {
				fc.oblige(st, "ginv.const", gv.Name(), "false", nil, "global "+gv.Name()+" named in a global invariant is assigned at "+where)
				continue
			}
			init, ok := inits[gv]
			if !ok {
				fc.oblige(st, "ginv.const", gv.Name(), "false", nil, "global "+gv.Name()+" has no initialiser")
				continue
			}
			if _, done := st.vars[gv]; !done {
				v := fc.evalAs(st, init, gv.Type())
				st.vars[gv] = Term{S: v.S, T: gv.Type()}
				fc.oldState.vars[gv] = st.vars[gv]
			}
		}
		env := w.newEnv(pkg)
		fc.bindGlobals(st, env, fc.contract)
		t := fc.cevalIn(env, gi.Clause, nil)
		fc.oblige(st, "ginv", "", t.S, nil, "global invariant holds after initialisation: "+gi.Clause.Text)
	}
	return fc
}

// assignedSomewhere reports a position where a package-level variable is written (or its address taken).
func (w *World) assignedSomewhere(gv *types.Var) string {
	for _, p := range w.Pkgs {
		for _, f := range p.Syntax {
			where := ""
			ast.Inspect(f, func(n ast.Node) bool {
				isVar := func(e ast.Expr) bool {
					switch x := e.(type) {
					case *ast.Ident:
						return p.TypesInfo.Uses[x] == gv
					case *ast.SelectorExpr:
						return p.TypesInfo.Uses[x.Sel] == gv
					}
					return false
				}
				switch x := n.(type) {
				case *ast.AssignStmt:
					for _, l := range x.Lhs {
						if isVar(l) {
							where = w.Fset.Position(x.Pos()).String()
						}
					}
				case *ast.IncDecStmt:
					if isVar(x.X) {
						where = w.Fset.Position(x.Pos()).String()
					}
				case *ast.UnaryExpr:
					if x.Op == token.AND && isVar(x.X) {
						where = w.Fset.Position(x.Pos()).String()
					}
				}
				return where == ""
			})
			if where != "" {
				return shortPath(where)
			}
		}
	}
	return ""
}

func setSide(env *CEnv, side *[]string) {
	for e := env; e != nil; e = nil {
		e.side = side
		if e.old != nil {
			e.old.side = side
		}
		if e.pre != nil {
			e.pre.side = side
		}
		if e.iter != nil {
			e.iter.side = side
		}
	}
}

// checkAliasClauses: `aliases resultK m[e]` holds at a return when the returned expression is m[E] (m the
// parameter itself, not reassigned) and E equals e.
func (fc *FuncCtx) checkAliasClauses(st *State, vals []Term, n ast.Node) {
	if fc.contract == nil || len(fc.contract.Aliases) == 0 {
		return
	}
	rs, _ := n.(*ast.ReturnStmt)
	for _, al := range fc.contract.Aliases {
		site := "result" + strconv.Itoa(al.Result)
		var ix *ast.IndexExpr
		if rs != nil && al.Result < len(rs.Results) {
			ix, _ = unparen(rs.Results[al.Result]).(*ast.IndexExpr)
		}
		ok := false
		if ix != nil {
			if id, isId := unparen(ix.X).(*ast.Ident); isId {
				for i, pv := range fc.paramVars {
					if fc.info.ObjectOf(id) == pv && fc.paramNames[i] == al.Base {
						// the parameter still has its entry value
						if cur, have := st.vars[pv]; have && cur.S == fc.oldEnv.vars[al.Base].S {
							ok = true
						}
					}
				}
			}
		}
		if !ok {
			fc.oblige(st, "alias.return", site, "false", n, "the returned pointer is the element "+al.Base+"[...] of the parameter: "+al.Text)
			continue
		}
		env := fc.w.newEnv(fc.pkg)
		env.old = fc.oldEnv
		for k, v := range fc.oldEnv.vars {
			env.vars[k] = v
		}
		for i := range vals {
			env.vars[fc.rnames[i]] = vals[i]
			if i == 0 {
				env.vars["result"] = vals[i]
			}
		}
		want := env.eval(al.Idx)
		saved := fc.quiet
		fc.quiet = true
		got := fc.eval(st, ix.Index)
		fc.quiet = saved
		fc.oblige(st, "alias.return", site, eq(got.S, want.S), n, "the returned pointer is the element at the index the contract names: "+al.Text)
	}
}

var ghostErrRe = regexp.MustCompile(`\b[A-Z][A-Za-z0-9]*_err\b`)

// cevalInScope evaluates a clause; ok is false when the clause names a variable that is not in scope at n.
func (fc *FuncCtx) cevalInScope(env *CEnv, cl *Clause, n ast.Node) (t Term, ok bool) {
	defer func() {
		if r := recover(); r != nil {
			if te, isT := r.(translateErr); isT && strings.Contains(string(te), "unknown identifier") {
				ok = false
				return
			}
			panic(r)
		}
	}()
	return fc.cevalIn(env, cl, n), true
}
