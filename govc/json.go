package main

// JSON type-state (C05): a ghost pushdown recogniser state carried by every *bytes.Buffer.
// Literal writes are run through the recogniser character by character (as SMT terms, so that a
// symbolic state given by a loop invariant is handled by the solver); dynamic writes are atomic
// tokens that must be proved to be a JSON number, JSON-safe string content, or a complete string
// literal. Every write yields a json.legal obligation; a value written right after a literal key
// yields a json.slot obligation against the `slot` clauses of the function's contract.

import (
	"fmt"
	"go/ast"
	"go/types"
	"strconv"
	"strings"
)

const (
	jsV   = 0 // a value must follow
	jsVC  = 1 // just after '[' : value or ']'
	jsKC  = 2 // just after '{' : key or '}'
	jsK   = 3 // after ',' in an object: key
	jsC   = 4 // after a key: ':'
	jsA   = 5 // after a value: ',' or the closer of the top frame
	jsSK  = 6 // inside a key string
	jsSV  = 7 // inside a value string
	jsD   = 8 // document complete
	jsBAD = 9
	jsSKE = 10 // escape pending in key string
	jsSVE = 11 // escape pending in value string
	jsT   = 12 // inside a bare token (number, true, false, null) written as literal text
)

const jsonSort = "T_ghost_JSON"

// jsonPrelude defines the recogniser over the datatype of ghost.JSON (fields Ph, Dp, F1..F6).
func jsonPrelude() string {
	J := jsonSort
	sel := func(f, s string) string { return "(" + J + "_" + f + " " + s + ")" }
	mk := func(ph, dp string, fs [6]string) string {
		return "(mk_" + J + " " + ph + " " + dp + " " + strings.Join(fs[:], " ") + ")"
	}
	frames := func(s string) [6]string {
		var fs [6]string
		for i := range fs {
			fs[i] = sel("F"+strconv.Itoa(i+1), s)
		}
		return fs
	}
	var b strings.Builder
	// top frame
	top := "0"
	for i := 6; i >= 1; i-- {
		top = "(ite (= " + sel("Dp", "s") + " " + strconv.Itoa(i) + ") " + sel("F"+strconv.Itoa(i), "s") + " " + top + ")"
	}
	b.WriteString("(define-fun js_top ((s " + J + ")) Int " + top + ")\n")
	b.WriteString("(define-fun js_set ((s " + J + ") (p Int)) " + J + " " + mk("p", sel("Dp", "s"), frames("s")) + ")\n")
	b.WriteString("(define-fun js_bad ((s " + J + ")) " + J + " (js_set s 9))\n")
	b.WriteString("(define-fun js_afterval ((s " + J + ")) " + J + " (js_set s (ite (= " + sel("Dp", "s") + " 0) 8 5)))\n")
	// push
	var pf [6]string
	for i := range pf {
		pf[i] = "(ite (= " + sel("Dp", "s") + " " + strconv.Itoa(i) + ") k " + sel("F"+strconv.Itoa(i+1), "s") + ")"
	}
	b.WriteString("(define-fun js_push ((s " + J + ") (k Int) (p Int)) " + J + " (ite (< " + sel("Dp", "s") + " 6) " + mk("p", "(+ "+sel("Dp", "s")+" 1)", pf) + " (js_bad s)))\n")
	// pop: the popped container is a completed value one level up
	var cf [6]string
	for i := range cf {
		cf[i] = "(ite (= " + sel("Dp", "s") + " " + strconv.Itoa(i+1) + ") 0 " + sel("F"+strconv.Itoa(i+1), "s") + ")"
	}
	b.WriteString("(define-fun js_pop ((s " + J + ")) " + J + " (ite (>= " + sel("Dp", "s") + " 1) " + mk("(ite (= "+sel("Dp", "s")+" 1) 8 5)", "(- "+sel("Dp", "s")+" 1)", cf) + " (js_bad s)))\n")
	// canonical form: no stale frames above the current depth
	var cn []string
	for i := 1; i <= 6; i++ {
		cn = append(cn, "(=> (< "+sel("Dp", "s")+" "+strconv.Itoa(i)+") (= "+sel("F"+strconv.Itoa(i), "s")+" 0))")
	}
	b.WriteString("(define-fun js_canon ((s " + J + ")) Bool (and (>= " + sel("Dp", "s") + " 0) (<= " + sel("Dp", "s") + " 6) " + strings.Join(cn, " ") + "))\n")
	// character classes
	b.WriteString("(define-fun js_ws ((c Int)) Bool (or (= c 32) (= c 9) (= c 10) (= c 13)))\n")
	b.WriteString("(define-fun js_bare ((c Int)) Bool (or (and (<= 48 c) (<= c 57)) (and (<= 97 c) (<= c 122)) (and (<= 65 c) (<= c 90)) (= c 45) (= c 43) (= c 46)))\n")
	// phase A transitions
	b.WriteString("(define-fun js_charA ((s " + J + ") (c Int)) " + J + " (ite (= c 44) (ite (= (js_top s) 1) (js_set s 3) (ite (= (js_top s) 2) (js_set s 0) (js_bad s))) (ite (= c 125) (ite (= (js_top s) 1) (js_pop s) (js_bad s)) (ite (= c 93) (ite (= (js_top s) 2) (js_pop s) (js_bad s)) (ite (js_ws c) s (js_bad s))))))\n")
	ph := sel("Ph", "s")
	val := "(ite (= c 123) (js_push s 1 2) (ite (= c 91) (js_push s 2 1) (ite (= c 34) (js_set s 7) (ite (and (= c 93) (= " + ph + " 1) (= (js_top s) 2)) (js_pop s) (ite (js_bare c) (js_set s 12) (ite (js_ws c) s (js_bad s)))))))"
	key := "(ite (= c 34) (js_set s 6) (ite (and (= c 125) (= " + ph + " 2) (= (js_top s) 1)) (js_pop s) (ite (js_ws c) s (js_bad s))))"
	col := "(ite (= c 58) (js_set s 0) (ite (js_ws c) s (js_bad s)))"
	sk := "(ite (= c 34) (js_set s 4) (ite (= c 92) (js_set s 10) (ite (< c 32) (js_bad s) s)))"
	sv := "(ite (= c 34) (js_afterval s) (ite (= c 92) (js_set s 11) (ite (< c 32) (js_bad s) s)))"
	esc := func(back int) string {
		return "(ite (or (= c 34) (= c 92) (= c 47) (= c 98) (= c 102) (= c 110) (= c 114) (= c 116) (= c 117)) (js_set s " + strconv.Itoa(back) + ") (js_bad s))"
	}
	tok := "(ite (js_bare c) s (ite (js_ws c) (js_afterval s) (js_charA (js_afterval s) c)))"
	done := "(ite (js_ws c) s (js_bad s))"
	body := "(ite (or (= " + ph + " 0) (= " + ph + " 1)) " + val +
		" (ite (or (= " + ph + " 2) (= " + ph + " 3)) " + key +
		" (ite (= " + ph + " 4) " + col +
		" (ite (= " + ph + " 5) (js_charA s c)" +
		" (ite (= " + ph + " 6) " + sk +
		" (ite (= " + ph + " 7) " + sv +
		" (ite (= " + ph + " 10) " + esc(6) +
		" (ite (= " + ph + " 11) " + esc(7) +
		" (ite (= " + ph + " 12) " + tok +
		" (ite (= " + ph + " 8) " + done + " (js_bad s)))))))))))"
	b.WriteString("(define-fun js_char ((s " + J + ") (c Int)) " + J + " " + body + ")\n")
	// dynamic tokens: 1 number, 2 string content, 3 complete string literal
	dyn := "(ite (= k 1) (ite (or (= " + ph + " 0) (= " + ph + " 1)) (js_afterval s) (js_bad s))" +
		" (ite (= k 2) (ite (or (= " + ph + " 6) (= " + ph + " 7)) s (js_bad s))" +
		" (ite (= k 3) (ite (or (= " + ph + " 0) (= " + ph + " 1)) (js_afterval s) (ite (or (= " + ph + " 2) (= " + ph + " 3)) (js_set s 4) (js_bad s))) (js_bad s))))"
	b.WriteString("(define-fun js_dyn ((s " + J + ") (k Int)) " + J + " " + dyn + ")\n")
	b.WriteString("(declare-fun js_isnum (Str) Bool)\n(declare-fun js_numval (Str) Int)\n(declare-fun js_strsafe (Str) Bool)\n(declare-fun js_strlit (Str) Bool)\n(declare-fun js_byteslit (Sl_Int) Bool)\n")
	return b.String()
}

// jsonStrSafe: the text can stand between two quotes of a JSON string (no quote, backslash or
// control character, valid UTF-8 is not required by the recogniser but invalid UTF-8 is rejected).
func jsonStrSafe(s string) bool {
	for _, c := range []byte(s) {
		if c == '"' || c == '\\' || c < 0x20 || c >= 0x80 {
			return false
		}
	}
	return true
}

func (w *World) jsonType() types.Type {
	return w.GhostPkg.Scope().Lookup("JSON").Type()
}

// bufferJS returns the pointee of a *bytes.Buffer argument and its js ghost field.
func (fc *FuncCtx) bufferJS(st *State, bufExpr ast.Expr, n ast.Node) (ptr Term, pointee Term, js Term) {
	ptr = fc.eval(st, bufExpr)
	if _, ok := ptr.T.Underlying().(*types.Pointer); !ok {
		// addressable bytes.Buffer value (var errMsg bytes.Buffer)
		pointee = ptr
	} else {
		pointee = fc.derefChecked(st, ptr, n, exprStr(bufExpr))
	}
	j, ok := fc.reg().fieldOf(pointee, "js")
	if !ok {
		fc.fail(n, "bytes.Buffer has no ghost field js (extern.contracts)")
	}
	return ptr, pointee, j
}

func (fc *FuncCtx) setBufferJS(st *State, bufExpr ast.Expr, ptr, pointee Term, js string) {
	np := fc.reg().withField(pointee, "js", js)
	saved := fc.quiet
	fc.quiet = true
	defer func() { fc.quiet = saved }()
	if !fc.addressable(bufExpr) {
		return
	}
	if _, ok := ptr.T.Underlying().(*types.Pointer); ok {
		fc.assign(st, bufExpr, fc.reg().ref(np, ptr.T))
	} else {
		fc.assign(st, bufExpr, np)
	}
}

// jsonWrite implements the intrinsics jswritestr / jswritebyte / jswritebytes / jsreset.
func (fc *FuncCtx) jsonWrite(st *State, call *ast.CallExpr, fn *types.Func, kind string) []Term {
	sel := unparen(call.Fun).(*ast.SelectorExpr)
	bufExpr := sel.X
	ptr, pointee, js := fc.bufferJS(st, bufExpr, call)
	sig := fn.Type().(*types.Signature)
	results := func() []Term {
		var rs []Term
		for i := 0; i < sig.Results().Len(); i++ {
			r := fc.fresh("r_"+fn.Name(), sig.Results().At(i).Type())
			if types.TypeString(r.T, nil) == "error" {
				fc.assume(st, fc.reg().isNil(r)) // bytes.Buffer writes never fail
			}
			rs = append(rs, r)
		}
		return rs
	}
	// obligations are raised only in functions whose contract declares that the buffer holds JSON
	// (`opt json`); other uses of bytes.Buffer (error texts) just update the ghost state
	saved := fc.quiet
	if fc.contract == nil || fc.contract.Opts["json"] == "" {
		fc.quiet = true
	}
	defer func() { fc.quiet = saved }()
	badOf := func(s string) string { return eq("("+jsonSort+"_Ph "+s+")", strconv.Itoa(jsBAD)) }
	switch kind {
	case "jsreset":
		z := fc.reg().Zero(fc.w.jsonType())
		fc.setBufferJS(st, bufExpr, ptr, pointee, z.S)
		st.pendingKey = ""
		return results()
	case "jswritebyte":
		c := fc.eval(st, call.Args[0])
		lit, ok := isLiteral(c.S)
		if !ok {
			fc.oblige(st, "json.legal", "", "false", call, "WriteByte of a non-constant byte")
			return results()
		}
		ns := fc.compact(Term{S: "(js_char " + js.S + " " + lit.String() + ")", T: js.T})
		fc.oblige(st, "json.legal", "", not(badOf(ns.S)), call, fmt.Sprintf("writing %q keeps the output a prefix of a JSON document", string(rune(lit.Int64()))))
		fc.setBufferJS(st, bufExpr, ptr, pointee, ns.S)
		fc.trackKey(st, string(rune(lit.Int64())))
		return results()
	case "jswritestr":
		s := fc.eval(st, call.Args[0])
		if s.Const != nil {
			cur := js
			for _, c := range []byte(*s.Const) {
				cur = fc.compact(Term{S: "(js_char " + cur.S + " " + strconv.Itoa(int(c)) + ")", T: js.T})
			}
			fc.oblige(st, "json.legal", "", not(badOf(cur.S)), call, fmt.Sprintf("writing the literal %s keeps the output a prefix of a JSON document", strconv.Quote(*s.Const)))
			fc.setBufferJS(st, bufExpr, ptr, pointee, cur.S)
			fc.trackKey(st, *s.Const)
			return results()
		}
		// dynamic text: number in a value position, or safe content inside a string
		k := "(ite (and (js_isnum " + s.S + ") (or (= (" + jsonSort + "_Ph " + js.S + ") 0) (= (" + jsonSort + "_Ph " + js.S + ") 1))) 1 (ite (and (js_strsafe " + s.S + ") (or (= (" + jsonSort + "_Ph " + js.S + ") 6) (= (" + jsonSort + "_Ph " + js.S + ") 7))) 2 (ite (js_strlit " + s.S + ") 3 0)))"
		ns := fc.compact(Term{S: "(js_dyn " + js.S + " " + k + ")", T: js.T})
		fc.oblige(st, "json.payload", "", not(badOf(ns.S)), call, "the text written by "+exprStr(call.Args[0])+" is a JSON number in a value position, JSON-safe content inside a string, or a complete string literal")
		fc.slotCheck(st, call, s, false)
		st.ghost["jslast"] = Term{S: s.S, T: types.Typ[types.String]}
		fc.setBufferJS(st, bufExpr, ptr, pointee, ns.S)
		return results()
	case "jswritebytes":
		p := fc.eval(st, call.Args[0])
		k := "(ite (js_byteslit " + p.S + ") 3 0)"
		ns := fc.compact(Term{S: "(js_dyn " + js.S + " " + k + ")", T: js.T})
		fc.oblige(st, "json.payload", "", not(badOf(ns.S)), call, "the bytes written by "+exprStr(call.Args[0])+" are a complete JSON string literal")
		fc.slotCheck(st, call, p, true)
		fc.setBufferJS(st, bufExpr, ptr, pointee, ns.S)
		return results()
	}
	fc.fail(call, "unknown json intrinsic %s", kind)
	return nil
}

// trackKey remembers the key whose value is written next: the literal just written ends with
// "key": or "key":" .
func (fc *FuncCtx) trackKey(st *State, lit string) {
	t := strings.TrimRight(lit, " ")
	quoted := false
	if strings.HasSuffix(t, ":\"") {
		t = strings.TrimSuffix(t, "\"")
		quoted = true
	}
	if !strings.HasSuffix(t, "\":") {
		if lit != "\"" || st.pendingKey == "" { // an opening quote written separately keeps the key
			st.pendingKey = ""
		}
		return
	}
	t = strings.TrimSuffix(t, "\":")
	i := strings.LastIndex(t, "\"")
	if i < 0 {
		st.pendingKey = ""
		return
	}
	st.pendingKey = t[i+1:]
	_ = quoted
}

// slotCheck: the dynamic value written after a literal key must equal the contract's slot expression.
func (fc *FuncCtx) slotCheck(st *State, call *ast.CallExpr, v Term, isBytes bool) {
	key := st.pendingKey
	st.pendingKey = ""
	if key == "" {
		return
	}
	var sc *Clause
	for _, c := range fc.contract.Slots {
		if c.Tag == key {
			sc = c
		}
	}
	if sc == nil {
		fc.oblige(st, "json.slot", key, "false", call, "the contract has no slot clause for the key \""+key+"\"")
		return
	}
	env := fc.codeEnv(st, call.Pos())
	want := fc.cevalIn(env, sc, call)
	var goal string
	switch {
	case isBytes:
		goal = eq("(js_bytesval "+v.S+")", want.S)
	case isString(want.T):
		goal = eq(v.S, want.S)
	default:
		goal = and("(js_isnum "+v.S+")", eq("(js_numval "+v.S+")", want.S))
	}
	fc.oblige(st, "json.slot", key, goal, call, "the value written under \""+key+"\" is "+sc.Text)
}
