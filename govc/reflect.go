package main

// Package reflect over statically known types, and constant folding of a few string functions: enough to execute
// code that walks the fields of a struct whose type is known (vflow.Options.getEnv) symbolically. Values of type
// reflect.Type, reflect.StructField and reflect.Value carry what is known about them in Term.Static; an operation whose
// operand is not statically known fails translation.

import (
	"fmt"
	"go/ast"
	"go/token"
	"go/types"
	"os"
	"reflect"
	"strconv"
	"strings"
)

type rtype struct{ T types.Type }
type rfield struct {
	S   *types.Struct
	Idx int
}
type rvalue struct {
	Expr  ast.Expr // the Go value the reflect.Value stands for (an addressable expression, or a pointer expression)
	Field string   // when set: the field Field of the struct value Expr
	T     types.Type
}

func (fc *FuncCtx) constStr(s string, t types.Type) Term {
	v := s
	return Term{S: fc.reg().strConst(s), T: t, Const: &v}
}

// evalStatic handles calls of package reflect, strings, fmt.Sprintf and os.Getenv-free constant folding. ok=false:
// not one of ours (or operands not static), the normal call path applies.
func (fc *FuncCtx) evalStatic(st *State, call *ast.CallExpr, fn *types.Func, recvExpr ast.Expr) ([]Term, bool) {
	if fn.Pkg() == nil {
		return nil, false
	}
	full := fn.FullName()
	sig := fn.Type().(*types.Signature)
	res0 := func() types.Type { return sig.Results().At(0).Type() }
	switch fn.Pkg().Path() {
	case "strings", "fmt":
		var as []Term
		allConst := true
		for _, a := range call.Args {
			saved := fc.quiet
			fc.quiet = true
			t := fc.eval(st, a)
			fc.quiet = saved
			as = append(as, t)
			if t.Const == nil {
				if _, err := strconv.Atoi(t.S); err != nil {
					allConst = false
				}
			}
		}
		if !allConst {
			return nil, false
		}
		cs := func(i int) string { return *as[i].Const }
		switch full {
		case "strings.ToUpper":
			return []Term{fc.constStr(strings.ToUpper(cs(0)), res0())}, true
		case "strings.ToLower":
			return []Term{fc.constStr(strings.ToLower(cs(0)), res0())}, true
		case "strings.ReplaceAll":
			return []Term{fc.constStr(strings.ReplaceAll(cs(0), cs(1), cs(2)), res0())}, true
		case "strings.Replace":
			n, err := strconv.Atoi(as[3].S)
			if err != nil || as[0].Const == nil || as[1].Const == nil || as[2].Const == nil {
				return nil, false
			}
			return []Term{fc.constStr(strings.Replace(cs(0), cs(1), cs(2), n), res0())}, true
		case "strings.TrimSpace":
			return []Term{fc.constStr(strings.TrimSpace(cs(0)), res0())}, true
		case "fmt.Sprintf":
			if as[0].Const == nil {
				return nil, false
			}
			var args []interface{}
			for _, a := range as[1:] {
				if a.Const == nil {
					return nil, false
				}
				args = append(args, *a.Const)
			}
			if strings.Count(cs(0), "%s") != len(args) || strings.Count(cs(0), "%") != len(args) {
				return nil, false
			}
			return []Term{fc.constStr(fmt.Sprintf(cs(0), args...), res0())}, true
		}
		return nil, false
	case "reflect":
	default:
		return nil, false
	}
	recvStatic := func() interface{} {
		if recvExpr == nil {
			return nil
		}
		saved := fc.quiet
		fc.quiet = true
		defer func() { fc.quiet = saved }()
		return fc.eval(st, recvExpr).Static
	}
	intArg := func(i int) (int, bool) {
		saved := fc.quiet
		fc.quiet = true
		t := fc.eval(st, call.Args[i])
		fc.quiet = saved
		n, err := strconv.Atoi(t.S)
		return n, err == nil
	}
	opaque := func(x interface{}) []Term {
		return []Term{{S: "0", T: res0(), Static: x}}
	}
	structOf := func(t types.Type) *types.Struct {
		s, _ := t.Underlying().(*types.Struct)
		return s
	}
	switch full {
	case "reflect.TypeOf":
		return opaque(&rtype{fc.typeOf(call.Args[0])}), true
	case "reflect.ValueOf":
		return opaque(&rvalue{Expr: call.Args[0], T: fc.typeOf(call.Args[0])}), true
	case "(reflect.Type).NumField", "(*reflect.rtype).NumField":
		if rt, ok := recvStatic().(*rtype); ok && structOf(rt.T) != nil {
			return []Term{{S: strconv.Itoa(structOf(rt.T).NumFields()), T: res0()}}, true
		}
	case "(reflect.Type).Field":
		if rt, ok := recvStatic().(*rtype); ok && structOf(rt.T) != nil {
			if i, ok := intArg(0); ok && i >= 0 && i < structOf(rt.T).NumFields() {
				return opaque(&rfield{structOf(rt.T), i}), true
			}
		}
	case "(reflect.StructTag).Get":
		saved := fc.quiet
		fc.quiet = true
		rv := fc.eval(st, recvExpr)
		k := fc.eval(st, call.Args[0])
		fc.quiet = saved
		if rv.Const != nil && k.Const != nil {
			return []Term{fc.constStr(reflect.StructTag(*rv.Const).Get(*k.Const), res0())}, true
		}
	case "(reflect.Value).Elem":
		if v, ok := recvStatic().(*rvalue); ok {
			if pt, ok := v.T.Underlying().(*types.Pointer); ok {
				star := &ast.StarExpr{X: v.Expr}
				fc.info.Types[star] = types.TypeAndValue{Type: pt.Elem()}
				return opaque(&rvalue{Expr: star, T: pt.Elem()}), true
			}
		}
	case "(reflect.Value).NumField":
		if v, ok := recvStatic().(*rvalue); ok && structOf(v.T) != nil {
			return []Term{{S: strconv.Itoa(structOf(v.T).NumFields()), T: res0()}}, true
		}
	case "(reflect.Value).Field":
		if v, ok := recvStatic().(*rvalue); ok && structOf(v.T) != nil {
			if i, ok := intArg(0); ok && i >= 0 && i < structOf(v.T).NumFields() {
				f := structOf(v.T).Field(i)
				if v.Field != "" {
					break // a field of a field: not needed so far
				}
				return opaque(&rvalue{Expr: v.Expr, Field: f.Name(), T: f.Type()}), true
			}
		}
	case "(reflect.Value).Kind":
		if v, ok := recvStatic().(*rvalue); ok {
			return []Term{{S: strconv.Itoa(int(kindOfType(v.T))), T: res0()}}, true
		}
	case "(reflect.Value).SetString", "(reflect.Value).SetInt", "(reflect.Value).SetBool", "(reflect.Value).SetUint":
		v, ok := recvStatic().(*rvalue)
		if !ok {
			break
		}
		want := map[string]reflect.Kind{"SetString": reflect.String, "SetBool": reflect.Bool}
		k := kindOfType(v.T)
		okKind := false
		switch fn.Name() {
		case "SetInt":
			okKind = k >= reflect.Int && k <= reflect.Int64
		case "SetUint":
			okKind = k >= reflect.Uint && k <= reflect.Uintptr
		default:
			okKind = want[fn.Name()] == k
		}
		val := fc.eval(st, call.Args[0])
		if !okKind {
			// reflect panics when the kind does not fit; unreachable behind a Kind() switch
			fc.oblige(st, "panic.reflect", "", "false", call, fn.Name()+" on a value of kind "+k.String())
			return nil, true
		}
		nv := fc.convertTo(st, val, v.T, call)
		if v.Field != "" {
			cur := fc.eval(st, v.Expr)
			fc.assign(st, v.Expr, Term{S: fc.reg().withField(cur, v.Field, nv.S).S, T: cur.T})
		} else {
			fc.assign(st, v.Expr, nv)
		}
		return nil, true
	}
	if os.Getenv("GOVC_DEBUG") != "" {
		fmt.Fprintf(os.Stderr, "reflect debug: %s recv=%#v\n", full, recvStatic())
		for i := range call.Args {
			n, ok := intArg(i)
			fmt.Fprintf(os.Stderr, "  arg %d int=%d ok=%v\n", i, n, ok)
		}
	}
	fc.fail(call, "package reflect on a value that is not statically known: %s", full)
	return nil, false
}

func kindOfType(t types.Type) reflect.Kind {
	switch u := t.Underlying().(type) {
	case *types.Basic:
		switch u.Kind() {
		case types.Bool:
			return reflect.Bool
		case types.Int:
			return reflect.Int
		case types.Int8:
			return reflect.Int8
		case types.Int16:
			return reflect.Int16
		case types.Int32:
			return reflect.Int32
		case types.Int64:
			return reflect.Int64
		case types.Uint:
			return reflect.Uint
		case types.Uint8:
			return reflect.Uint8
		case types.Uint16:
			return reflect.Uint16
		case types.Uint32:
			return reflect.Uint32
		case types.Uint64:
			return reflect.Uint64
		case types.Uintptr:
			return reflect.Uintptr
		case types.Float32:
			return reflect.Float32
		case types.Float64:
			return reflect.Float64
		case types.String:
			return reflect.String
		}
	case *types.Struct:
		return reflect.Struct
	case *types.Pointer:
		return reflect.Ptr
	case *types.Slice:
		return reflect.Slice
	case *types.Map:
		return reflect.Map
	case *types.Interface:
		return reflect.Interface
	case *types.Array:
		return reflect.Array
	case *types.Chan:
		return reflect.Chan
	case *types.Signature:
		return reflect.Func
	}
	return reflect.Invalid
}

// staticField: selection of a field of a statically known reflect.StructField (Tag, Name).
func (fc *FuncCtx) staticField(base Term, name string, t types.Type) (Term, bool) {
	rf, ok := base.Static.(*rfield)
	if !ok {
		return Term{}, false
	}
	switch name {
	case "Tag":
		return fc.constStr(rf.S.Tag(rf.Idx), t), true
	case "Name":
		return fc.constStr(rf.S.Field(rf.Idx).Name(), t), true
	}
	return Term{}, false
}

var _ = token.NoPos

// convertTo: the value as stored into a variable of type target by reflect's SetInt/SetUint/SetString/SetBool.
func (fc *FuncCtx) convertTo(st *State, v Term, target types.Type, n ast.Node) Term {
	switch {
	case isInteger(target) && isInteger(v.T):
		return Term{S: fc.convInt(v.S, v.T, target), T: target}
	case isString(target) && isString(v.T):
		return Term{S: v.S, T: target, Const: v.Const}
	}
	if fc.reg().SortOf(v.T) == fc.reg().SortOf(target) {
		return Term{S: v.S, T: target}
	}
	fc.fail(n, "reflect: cannot store %s into %s", types.TypeString(v.T, nil), types.TypeString(target, nil))
	return Term{}
}

// staticBound: a counting loop `for i := 0; i < E; i++` whose bound E is a statically known number (at most 128)
// and whose body does not assign i is unrolled.
func (fc *FuncCtx) staticBound(st *State, x *ast.ForStmt) (int, *types.Var) {
	cv := fc.countingVar(x)
	if cv == nil {
		return 0, nil
	}
	cond, ok := unparen(x.Cond).(*ast.BinaryExpr)
	if x.Cond == nil || !ok || cond.Op != token.LSS {
		return 0, nil
	}
	if id, ok := unparen(cond.X).(*ast.Ident); !ok || fc.info.ObjectOf(id) != cv {
		return 0, nil
	}
	call, ok := unparen(cond.Y).(*ast.CallExpr)
	if !ok {
		return 0, nil
	}
	fn, recv := fc.calleeOf(call)
	if fn == nil || fn.Pkg() == nil || fn.Pkg().Path() != "reflect" {
		return 0, nil
	}
	var out []Term
	func() {
		defer func() {
			if r := recover(); r != nil {
				if _, isT := r.(translateErr); !isT {
					panic(r)
				}
			}
		}()
		out, _ = fc.evalStatic(st, call, fn, recv)
	}()
	if len(out) != 1 {
		return 0, nil
	}
	n, err := strconv.Atoi(out[0].S)
	if err != nil || n < 0 || n > 128 {
		return 0, nil
	}
	return n, cv
}
