package main

// Calls: builtins, conversions, calls by contract.

import (
	"fmt"
	"go/ast"
	"go/token"
	"go/types"
	"golang.org/x/tools/go/packages"
	"sort"
	"strconv"
	"strings"
)

// calleeOf resolves the static callee of a call expression.
func (fc *FuncCtx) calleeOf(call *ast.CallExpr) (*types.Func, ast.Expr) {
	fun := call.Fun
	for {
		if p, ok := fun.(*ast.ParenExpr); ok {
			fun = p.X
			continue
		}
		break
	}
	switch f := fun.(type) {
	case *ast.Ident:
		if fn, ok := fc.info.ObjectOf(f).(*types.Func); ok {
			return fn, nil
		}
	case *ast.SelectorExpr:
		if sel := fc.info.Selections[f]; sel != nil {
			if fn, ok := sel.Obj().(*types.Func); ok {
				return fn, f.X
			}
			return nil, nil
		}
		if fn, ok := fc.info.ObjectOf(f.Sel).(*types.Func); ok {
			return fn, nil
		}
	}
	return nil, nil
}

func (fc *FuncCtx) isNoOp(fn *types.Func) bool {
	full := fn.FullName()
	if fc.w.NoOps[full] {
		return true
	}
	if fn.Pkg() != nil && fc.w.NoOps[fn.Pkg().Path()+".*"] {
		return true
	}
	// methods on a type: "(*log.Logger).*"
	if sig, ok := fn.Type().(*types.Signature); ok && sig.Recv() != nil {
		rt := types.TypeString(sig.Recv().Type(), nil)
		if fc.w.NoOps["("+rt+").*"] {
			return true
		}
	}
	return false
}

func (fc *FuncCtx) evalCall(st *State, call *ast.CallExpr) []Term {
	// conversion?
	if tv, ok := fc.info.Types[call.Fun]; ok && tv.IsType() {
		return []Term{fc.evalConversion(st, call, tv.Type)}
	}
	// builtin?
	if id, ok := unparen(call.Fun).(*ast.Ident); ok {
		if b, ok := fc.info.ObjectOf(id).(*types.Builtin); ok {
			return fc.evalBuiltin(st, call, b.Name())
		}
	}
	fn, recvExpr := fc.calleeOf(call)
	if fn == nil {
		// a local closure: a variable bound once to a function literal in this function and never reassigned is
		// executed in place (captured variables are the caller's own)
		if id, ok := unparen(call.Fun).(*ast.Ident); ok {
			if lit := fc.localClosure(id); lit != nil {
				if sig, ok := fc.typeOf(lit).(*types.Signature); ok {
					key := fc.key + "$" + id.Name
					depthOK := len(fc.inlineStack) < 4
					for _, k := range fc.inlineStack {
						if k == key {
							depthOK = false
						}
					}
					if depthOK {
						cfn := types.NewFunc(lit.Pos(), fc.pkg.Types, id.Name, sig)
						decl := &ast.FuncDecl{Name: &ast.Ident{Name: id.Name}, Type: lit.Type, Body: lit.Body}
						return fc.inlineCallIn(st, call, cfn, nil, key, decl, fc.pkg)
					}
				}
			}
		}
		// call of a function value (field, parameter): arguments evaluated, result arbitrary
		for _, a := range call.Args {
			fc.eval(st, a)
		}
		fc.fail(call, "call of function value %s", exprStr(call.Fun))
	}
	if rs, ok := fc.evalStatic(st, call, fn, recvExpr); ok {
		return rs
	}
	sig := fn.Type().(*types.Signature)
	if fc.isNoOp(fn) {
		if recvExpr != nil {
			fc.eval(st, recvExpr)
		}
		for _, a := range call.Args {
			fc.eval(st, a)
		}
		var rs []Term
		for i := 0; i < sig.Results().Len(); i++ {
			rs = append(rs, fc.fresh("noop_"+fn.Name(), sig.Results().At(i).Type()))
		}
		return rs
	}
	key := fn.FullName()
	if key == "(*sync.Pool).Get" || key == "(*sync.Pool).Put" {
		if oi := fc.w.PoolInvs[fc.globalKey(recvExpr)]; oi != nil {
			fc.eval(st, recvExpr)
			if key == "(*sync.Pool).Get" {
				r := fc.fresh("pool_get", sig.Results().At(0).Type())
				fc.assume(st, fc.objInvTerm(st, oi, r, call))
				return []Term{r}
			}
			v := fc.evalAs(st, call.Args[0], sig.Params().At(0).Type())
			fc.ownRelease(st, call.Args[0], call)
			fc.oblige(st, "pool.inv", "", fc.objInvTerm(st, oi, v, call), call, "value put into "+exprStr(recvExpr)+" satisfies the pool invariant: "+oi.Clause.Text)
			return nil
		}
	}
	countCall := func() {
		if fc.contract != nil {
			for _, want := range strings.Fields(fc.contract.Opts["countcalls"]) {
				if fn.Name() == want {
					cur := st.ghost["calls_"+want]
					st.ghost["calls_"+want] = mkMath("(+ " + cur.S + " 1)")
				}
			}
		}
	}
	if spec, ok := fc.w.Intrinsics[key]; ok {
		fc.usedContracts["intrinsic:"+key] = true
		countCall()
		return fc.evalIntrinsic(st, call, fn, spec)
	}
	c := fc.w.Contracts[key]
	if c == nil {
		// interface method: look for a contract on the interface method name
		if recvExpr != nil && sig.Recv() != nil && isInterface(sig.Recv().Type()) {
			c = fc.w.Contracts[key]
		}
	}
	if c == nil && recvExpr != nil && sig.Recv() != nil && isInterface(sig.Recv().Type()) {
		if rs, ok := fc.dispatchByCases(st, call, fn, recvExpr); ok {
			return rs
		}
	}
	if c == nil {
		c = fc.w.defaultExtern(key, fn)
	}
	if c == nil {
		if decl := fc.w.FuncDecls[key]; decl != nil {
			if why := fc.canInline(key, decl, fn); why == "" {
				return fc.inlineCall(st, call, fn, recvExpr, key, decl)
			} else {
				fc.fail(call, "no contract for callee %s (not inlined: %s)", key, why)
			}
		}
		fc.fail(call, "no contract for callee %s", key)
	}
	fc.usedContracts[key] = true
	countCall()
	if fc.w.ReflectReads[key] {
		fc.reflectReads(st, call)
	}
	return fc.applyContract(st, call, fn, recvExpr, c)
}

func unparen(e ast.Expr) ast.Expr {
	for {
		if p, ok := e.(*ast.ParenExpr); ok {
			e = p.X
			continue
		}
		return e
	}
}

type boundArg struct {
	name string
	expr ast.Expr // caller expression (nil for synthesized)
	pre  Term
	typ  types.Type
	// for pointer arguments: where the pointee lives in the caller
	viaAddr  bool // expr is the addressable pointee itself (implicit & on receiver or &x argument)
	embedded []int
}

// paramNames returns receiver+parameter names as used by the contract.
func contractParamNames(fn *types.Func, c *Contract) (recv string, params []string, results []string) {
	sig := fn.Type().(*types.Signature)
	if sig.Recv() != nil {
		recv = sig.Recv().Name()
		if recv == "" || recv == "_" {
			recv = "recv"
		}
	}
	for i := 0; i < sig.Params().Len(); i++ {
		n := sig.Params().At(i).Name()
		if n == "" || n == "_" {
			n = "p" + strconv.Itoa(i)
		}
		params = append(params, n)
	}
	if c != nil && len(c.Names) >= len(params)+b2i(sig.Recv() != nil)+sig.Results().Len() {
		// names as of the time the contract was written: a RENAMED parameter keeps its contract name. A name is a
		// renaming only if the current name is unknown to the snapshot and the snapshot's name is no longer a name of
		// the signature (reordered parameters keep their own names)
		inSnap := map[string]bool{}
		for _, n := range c.Names {
			inSnap[n] = true
		}
		inSig := map[string]bool{recv: true}
		for _, p := range params {
			inSig[p] = true
		}
		for i := 0; i < sig.Results().Len(); i++ {
			inSig[sig.Results().At(i).Name()] = true
		}
		renamed := func(cur, snap string) bool {
			return snap != "_" && cur != snap && !inSnap[cur] && !inSig[snap]
		}
		k := 0
		if sig.Recv() != nil {
			if renamed(recv, c.Names[0]) {
				recv = c.Names[0]
			}
			k = 1
		}
		for i := range params {
			if renamed(params[i], c.Names[k+i]) {
				params[i] = c.Names[k+i]
			}
		}
		defer func() {
			for i := range results {
				cur := sig.Results().At(i).Name()
				n := c.Names[k+len(params)+i]
				if cur == "" || cur == "_" {
					// a result that lost its name keeps the name the contract knows it by
					if n != "_" && !inSig[n] {
						results[i] = n
					}
					continue
				}
				if renamed(cur, n) {
					results[i] = n
				}
			}
		}()
	}
	if c != nil && len(c.Params) > 0 {
		ps := c.Params
		if sig.Recv() != nil && len(ps) == len(params)+1 {
			recv = ps[0]
			ps = ps[1:]
		}
		if len(ps) == len(params) {
			params = ps
		}
	}
	for i := 0; i < sig.Results().Len(); i++ {
		results = append(results, resultName(sig, i))
	}
	return
}

// resultName: declared name, else "err" for a trailing error, else result / resultN.
func resultName(sig *types.Signature, i int) string {
	r := sig.Results().At(i)
	if r.Name() != "" && r.Name() != "_" {
		return r.Name()
	}
	if i == sig.Results().Len()-1 && types.TypeString(r.Type(), nil) == "error" {
		return "err"
	}
	if i == 0 {
		return "result"
	}
	return "result" + strconv.Itoa(i)
}

func (fc *FuncCtx) bindArgs(st *State, call *ast.CallExpr, fn *types.Func, recvExpr ast.Expr, c *Contract) []boundArg {
	sig := fn.Type().(*types.Signature)
	recvName, pnames, _ := contractParamNames(fn, c)
	var out []boundArg
	if sig.Recv() != nil && recvExpr != nil {
		rt := sig.Recv().Type()
		v := fc.eval(st, recvExpr)
		b := boundArg{name: recvName, expr: recvExpr, typ: rt}
		_, wantPtr := rt.Underlying().(*types.Pointer)
		_, havePtr := v.T.Underlying().(*types.Pointer)
		switch {
		case isInterface(rt):
			b.pre = v
		case wantPtr && !havePtr:
			// implicit address-of on an addressable receiver
			b.pre = fc.reg().ref(v, rt)
			b.viaAddr = true
		case !wantPtr && havePtr:
			b.pre = fc.derefChecked(st, v, call, exprStr(recvExpr))
		default:
			b.pre = v
			if wantPtr {
				fc.oblige(st, "panic.nilptr", "", not(fc.reg().isNil(v)), call, "method call on possibly nil receiver "+exprStr(recvExpr))
			}
		}
		// embedded promotion: receiver reached through embedded fields
		if sel := fc.info.Selections[unparen(call.Fun).(*ast.SelectorExpr)]; sel != nil && len(sel.Index()) > 1 {
			// navigate embedded path except the last (method) index
			cur := v
			for _, ix := range sel.Index()[:len(sel.Index())-1] {
				if _, ok := cur.T.Underlying().(*types.Pointer); ok {
					cur = fc.derefChecked(st, cur, call, exprStr(recvExpr))
				}
				stt := cur.T.Underlying().(*types.Struct)
				f, _ := fc.reg().fieldOf(cur, stt.Field(ix).Name())
				cur = f
			}
			b.embedded = sel.Index()[:len(sel.Index())-1]
			if _, isPtr := cur.T.Underlying().(*types.Pointer); wantPtr && !isPtr {
				b.pre = fc.reg().ref(cur, rt)
				b.viaAddr = true
			} else {
				b.pre = cur
			}
		}
		out = append(out, b)
	}
	np := sig.Params().Len()
	for i := 0; i < np; i++ {
		pt := sig.Params().At(i).Type()
		if sig.Variadic() && i == np-1 {
			// variadic: pack remaining args (or pass slice with ...)
			b := boundArg{name: pnames[i], typ: pt}
			if call.Ellipsis != token.NoPos {
				b.expr = call.Args[i]
				b.pre = fc.evalAs(st, call.Args[i], pt)
			} else {
				st2 := pt.Underlying().(*types.Slice)
				es := fc.reg().SortOf(st2.Elem())
				arr := fc.reg().constArray(es, fc.reg().Zero(st2.Elem()).S)
				n := 0
				for _, a := range call.Args[i:] {
					v := fc.evalAs(st, a, st2.Elem())
					arr = "(store " + arr + " " + strconv.Itoa(n) + " " + v.S + ")"
					n++
				}
				b.pre = fc.reg().mkSlice(pt, arr, "0", strconv.Itoa(n), strconv.Itoa(n))
			}
			out = append(out, b)
			break
		}
		if i >= len(call.Args) {
			fc.fail(call, "argument count mismatch (multi-value call as argument not supported)")
		}
		a := call.Args[i]
		b := boundArg{name: pnames[i], expr: a, typ: pt}
		if ue, ok := unparen(a).(*ast.UnaryExpr); ok && ue.Op == token.AND {
			if _, isLit := unparen(ue.X).(*ast.CompositeLit); !isLit {
				b.expr = ue.X
				b.viaAddr = true
			}
		}
		b.pre = fc.evalAs(st, a, pt)
		out = append(out, b)
	}
	return out
}

func (fc *FuncCtx) applyContract(st *State, call *ast.CallExpr, fn *types.Func, recvExpr ast.Expr, c *Contract) []Term {
	sig := fn.Type().(*types.Signature)
	args := fc.bindArgs(st, call, fn, recvExpr, c)
	// caller-side assertions about this call (callassert <callee>: expr)
	if fc.contract != nil {
		for k, ca := range fc.contract.CallAsserts {
			if ca.Tag != fn.Name() {
				continue
			}
			env := fc.codeEnv(st, call.Pos())
			ai := 0
			for _, a := range args {
				if sig.Recv() != nil && a.expr == recvExpr && ai == 0 && a.name == args[0].name && recvExpr != nil && len(args) == sig.Params().Len()+1 && a.typ == sig.Recv().Type() {
					env.vars["recv"] = a.pre
					continue
				}
				env.vars["arg"+strconv.Itoa(ai)] = a.pre
				ai++
			}
			t := fc.cevalIn(env, ca, call)
			fc.oblige(st, "call.assert", fn.Name()+"."+strconv.Itoa(k+1), t.S, call, "at the call of "+fn.Name()+": "+ca.Text)
		}
	}
	_, _, rnames := contractParamNames(fn, c)
	if len(c.Results) == len(rnames) {
		rnames = c.Results
	}
	site := fn.Name()

	preEnv := fc.w.newEnv(c.Pkg)
	if preEnv.pkg == nil {
		preEnv.pkg = fc.pkg
	}
	for _, a := range args {
		preEnv.vars[a.name] = a.pre
	}
	fc.bindGlobals(st, preEnv, c)
	// requires
	for i, r := range c.Requires {
		t := fc.cevalIn(preEnv, r, call)
		tag := strconv.Itoa(i + 1)
		if r.Tag != "" {
			tag = r.Tag
		}
		fc.oblige(st, "pre", site+"."+tag, t.S, call, "precondition of "+fn.Name()+": "+r.Text)
	}
	// lock bookkeeping and other special effects
	fc.specialEffects(st, call, fn, args)

	// post values of arguments
	postEnv := fc.w.newEnv(preEnv.pkg)
	postEnv.old = preEnv
	post := make([]Term, len(args))
	for i, a := range args {
		post[i] = a.pre
	}
	globalsPost := map[*types.Var]Term{}
	for _, m := range c.Modifies {
		root, path := modPath(m.Expr)
		found := false
		for i, a := range args {
			if a.name == root {
				post[i] = fc.setPath(post[i], path, func(old Term) Term { return fc.fresh("m_"+fn.Name()+"_"+root, old.T) })
				found = true
			}
		}
		if !found {
			if gv := fc.lookupGlobal(root, c); gv != nil {
				cur, ok := globalsPost[gv]
				if !ok {
					cur = fc.readGlobal(st, gv)
				}
				globalsPost[gv] = fc.setPath(cur, path, func(old Term) Term { return fc.fresh("m_"+fn.Name()+"_"+root, old.T) })
				found = true
			}
		}
		if !found {
			fc.fail(call, "modifies clause of %s names unknown root %s", fn.Name(), root)
		}
	}
	// fields that no contract can name may be changed by any callee that gets a pointer to them
	if !c.Trusted {
		for i, a := range args {
			if _, isPtr := a.typ.Underlying().(*types.Pointer); !isPtr {
				continue
			}
			for _, path := range fc.w.irrelevantPaths(a.typ, 0) {
				post[i] = fc.compact(fc.setPath(post[i], path, func(old Term) Term { return fc.fresh("m_"+fn.Name()+"_"+a.name, old.T) }))
			}
		}
	}
	for i, a := range args {
		postEnv.vars[a.name] = post[i]
	}
	for gv, t := range globalsPost {
		st.vars[gv] = t
	}
	fc.bindGlobals(st, postEnv, c)
	// results
	var results []Term
	for i := 0; i < sig.Results().Len(); i++ {
		r := fc.fresh("r_"+fn.Name()+"_"+rnames[i], sig.Results().At(i).Type())
		results = append(results, r)
		postEnv.vars[rnames[i]] = r
		if i == 0 {
			postEnv.vars["result"] = r
		}
	}
	for _, g := range c.Ghost {
		postEnv.vars[g.Name] = fc.fresh("gh_"+fn.Name()+"_"+g.Name, g.Type)
	}
	for _, e := range c.Ensures {
		t := fc.cevalIn(postEnv, e, call)
		fc.assume(st, t.S)
	}
	// `opt filesource <callee>`: the call reads the configuration file; when it fails no key is present
	// (this is what "present in the file" means when there is no readable file)
	if fc.contract != nil && fc.contract.Opts["filesource"] == fn.Name() && fc.w.Uninterps["fileHas"] != nil && len(results) > 0 {
		errT := results[len(results)-1]
		fc.w.declareUninterp(fc.w.Uninterps["fileHas"])
		fc.assume(st, implies(not(fc.reg().isNil(errT)), "(forall ((k Str)) (! (not (u_fileHas k)) :pattern ((u_fileHas k))))"))
		fc.usedContracts["assumed: when the configuration file cannot be read, no key is present in it (meaning of fileHas)"] = true
	}
	// returned pointers that are elements of a slice argument: the receiving variable becomes an alias
	fc.pendingAlias = nil
	for _, al := range c.Aliases {
		for _, a := range args {
			if a.name != al.Base || a.expr == nil {
				continue
			}
			if !fc.isPathExpr(a.expr) {
				continue
			}
			idx := postEnv.eval(al.Idx)
			fc.pendingAlias = append(fc.pendingAlias, pendingAlias{call: call, result: al.Result, base: a.expr, idx: idx})
		}
	}
	// `opt consumes <param>...` on the callee: what these arguments point to is handed over
	if cons := c.Opts["consumes"]; cons != "" {
		for _, want := range strings.Fields(cons) {
			for _, a := range args {
				if a.name == want && a.expr != nil {
					fc.ownConsume(st, a.expr, call)
				}
			}
		}
	}
	// `opt lastargs <callee>`: ghosts <callee>_arg0, _arg1, ... are the arguments of the latest call of it
	if fc.contract != nil {
		for _, want := range strings.Fields(fc.contract.Opts["lastargs"]) {
			if want == fn.Name() {
				ai := 0
				for _, a := range args {
					if sig.Recv() != nil && recvExpr != nil && a.expr == recvExpr && ai == 0 && a.name == args[0].name && len(args) == sig.Params().Len()+1 {
						continue
					}
					st.ghost[want+"_arg"+strconv.Itoa(ai)] = a.pre
					ai++
				}
			}
		}
	}
	// `opt lasterr <callee>`: ghost <callee>_err is the error returned by the latest call of it
	if fc.contract != nil && len(results) > 0 && types.TypeString(results[len(results)-1].T, nil) == "error" {
		for _, want := range strings.Fields(fc.contract.Opts["lasterr"]) {
			if want == fn.Name() {
				st.ghost[want+"_err"] = results[len(results)-1]
			}
		}
	}
	// ghost outputs become visible in the caller under "<callee>.<name>" of the latest call
	for _, g := range c.Ghost {
		st.ghost[fn.Name()+"_"+g.Name] = postEnv.vars[g.Name]
	}
	// write back modified pointees
	for i, a := range args {
		if post[i].S == a.pre.S || a.expr == nil {
			continue
		}
		fc.writeBack(st, a, post[i], call)
	}
	return results
}

// writeBack stores the post value of an in-out argument into the caller's location.
func (fc *FuncCtx) writeBack(st *State, a boundArg, post Term, call *ast.CallExpr) {
	saved := fc.quiet
	fc.quiet = true
	defer func() { fc.quiet = saved }()
	if se, ok := unparen(a.expr).(*ast.SliceExpr); ok {
		// the callee wrote through a sub-slice: the shared backing array is what changed
		if _, isSl := post.T.Underlying().(*types.Slice); isSl && fc.addressable(rootLvalue(se)) {
			fc.writeSliceContents(st, se, post)
		}
		return
	}
	if !fc.addressable(a.expr) {
		return
	}
	if a.viaAddr {
		// caller location holds the pointee itself
		val := fc.reg().deref(post)
		if len(a.embedded) > 0 {
			base := fc.eval(st, a.expr)
			nb := fc.updatePathIdx(base, a.embedded, val)
			fc.assign(st, a.expr, nb)
			return
		}
		fc.assign(st, a.expr, val)
		return
	}
	if len(a.embedded) > 0 {
		base := fc.eval(st, a.expr)
		nb := fc.updatePathIdx(base, a.embedded, post)
		fc.assign(st, a.expr, nb)
		return
	}
	fc.assign(st, a.expr, post)
}

func (fc *FuncCtx) updatePathIdx(base Term, idx []int, v Term) Term {
	if len(idx) == 0 {
		return Term{S: v.S, T: base.T}
	}
	if _, ok := base.T.Underlying().(*types.Pointer); ok {
		return fc.reg().ref(fc.updatePathIdx(fc.reg().deref(base), idx, v), base.T)
	}
	stt := base.T.Underlying().(*types.Struct)
	f := stt.Field(idx[0])
	cur, _ := fc.reg().fieldOf(base, f.Name())
	return fc.reg().withField(base, f.Name(), fc.updatePathIdx(cur, idx[1:], v).S)
}

// modPath turns a modifies expression into root name and path.
func modPath(e CExpr) (string, []string) {
	switch x := e.(type) {
	case *CIdent:
		return x.Name, []string{"*"}
	case *CSelect:
		r, p := modPath(x.X)
		if len(p) == 1 && p[0] == "*" {
			p = nil
		}
		return r, append(p, x.Sel)
	case *CCall:
		if x.Fun == "contents" && len(x.Args) == 1 {
			r, p := modPath(x.Args[0])
			if len(p) == 1 && p[0] == "*" {
				p = nil
			}
			return r, append(p, "[]")
		}
	}
	panic(translateErr("unsupported modifies expression " + cexprString(e)))
}

func (fc *FuncCtx) lookupGlobal(name string, c *Contract) *types.Var {
	var scopes []*types.Scope
	if c.Pkg != nil {
		scopes = append(scopes, c.Pkg.Types.Scope())
	}
	scopes = append(scopes, fc.pkg.Types.Scope())
	if i := strings.Index(name, "."); i >= 0 {
		name = name[i+1:]
	}
	for _, s := range scopes {
		if v, ok := s.Lookup(name).(*types.Var); ok {
			return v
		}
	}
	return nil
}

func (fc *FuncCtx) readGlobal(st *State, gv *types.Var) Term {
	if v, ok := st.vars[gv]; ok {
		return v
	}
	return fc.globalInit(st, gv)
}

// bindGlobals makes the package-level variables of the contract's package visible by name.
func (fc *FuncCtx) bindGlobals(st *State, env *CEnv, c *Contract) {
	st0 := st
	env.globalOf = func(gv *types.Var) (Term, bool) { return fc.readGlobal(st0, gv), true }
	env.lookup = func(name string) (Term, bool) {
		var scopes []*types.Scope
		if c != nil && c.Pkg != nil {
			scopes = append(scopes, c.Pkg.Types.Scope())
		}
		scopes = append(scopes, fc.pkg.Types.Scope())
		for _, s := range scopes {
			if v, ok := s.Lookup(name).(*types.Var); ok {
				return fc.readGlobal(st0, v), true
			}
		}
		if g, ok := st0.ghost[name]; ok {
			return g, true
		}
		return Term{}, false
	}
}

// callModifies lists the caller locations a call may modify according to the callee's contract.
func (fc *FuncCtx) callModifies(call *ast.CallExpr) []havocLoc {
	if tv, ok := fc.info.Types[call.Fun]; ok && tv.IsType() {
		return nil
	}
	if id, ok := unparen(call.Fun).(*ast.Ident); ok {
		if _, ok := fc.info.ObjectOf(id).(*types.Builtin); ok {
			// copy(dst, src) writes dst
			if id.Name == "copy" && len(call.Args) == 2 {
				if fc.addressable(call.Args[0]) {
					return []havocLoc{{base: rootLvalue(call.Args[0]), path: nil}}
				}
			}
			return nil
		}
	}
	fn, recvExpr := fc.calleeOf(call)
	if fn == nil {
		return nil
	}
	// the same resolution order as call(): no-ops, pools with an invariant, intrinsics, contracts, default
	// library contracts (independent of which function happened to be verified first)
	if fc.isNoOp(fn) {
		return nil
	}
	key := fn.FullName()
	if (key == "(*sync.Pool).Get" || key == "(*sync.Pool).Put") && recvExpr != nil && fc.w.PoolInvs[fc.globalKey(recvExpr)] != nil {
		return nil
	}
	c := fc.w.Contracts[key]
	if c == nil {
		if _, isIntrinsic := fc.w.Intrinsics[key]; !isIntrinsic {
			c = fc.w.defaultExtern(key, fn)
		}
	}
	if c == nil {
		return nil
	}
	sig := fn.Type().(*types.Signature)
	recvName, pnames, _ := contractParamNames(fn, c)
	var out []havocLoc
	for _, m := range c.Modifies {
		root, path := modPath(m.Expr)
		var ae ast.Expr
		var pt types.Type
		if sig.Recv() != nil && root == recvName {
			ae = recvExpr
			pt = sig.Recv().Type()
		} else {
			for i, n := range pnames {
				if n == root && i < len(call.Args) {
					ae = call.Args[i]
					pt = sig.Params().At(i).Type()
				}
			}
		}
		if ae == nil {
			if gv := fc.lookupGlobal(root, c); gv != nil {
				out = append(out, havocLoc{obj: gv, path: path})
			}
			continue
		}
		_ = pt
		if ue, ok := unparen(ae).(*ast.UnaryExpr); ok && ue.Op == token.AND {
			ae = ue.X
		}
		if se, ok := unparen(ae).(*ast.SliceExpr); ok {
			ae = rootLvalue(se)
			path = []string{"[]"}
		}
		if !fc.addressable(ae) {
			continue
		}
		// the argument is either the pointer or (implicit &) the pointee; setPath handles both
		if id, ok := unparen(ae).(*ast.Ident); ok {
			if v, ok := fc.info.ObjectOf(id).(*types.Var); ok {
				out = append(out, havocLoc{obj: v, path: path})
				continue
			}
		}
		out = append(out, havocLoc{base: ae, path: path})
	}
	return out
}

func rootLvalue(e ast.Expr) ast.Expr {
	switch x := e.(type) {
	case *ast.SliceExpr:
		return rootLvalue(x.X)
	case *ast.ParenExpr:
		return rootLvalue(x.X)
	}
	return e
}

// clauseLocs: extra havoc targets named in a loop contract ("modifies x.f").
func (fc *FuncCtx) clauseLocs(cs []*Clause) []havocLoc {
	var out []havocLoc
	for _, c := range cs {
		root, path := modPath(c.Expr)
		if len(path) == 1 && path[0] == "*" {
			path = nil
		}
		// resolve the root by name among the function's variables
		for obj := range fc.allVars {
			if obj.Name() == root {
				out = append(out, havocLoc{obj: obj, path: path})
			}
		}
	}
	return out
}

func (fc *FuncCtx) evalConversion(st *State, call *ast.CallExpr, target types.Type) Term {
	v := fc.eval(st, call.Args[0])
	if fc.isUntypedNil(v) {
		return fc.reg().Zero(target)
	}
	src := v.T
	switch {
	case isInteger(target) && isInteger(src):
		r := Term{S: fc.convInt(v.S, src, target), T: target}
		if r.S == v.S {
			r.Bits, r.Low = v.Bits, v.Low
		}
		return r
	case isInteger(target) && isFloat(src), isFloat(target):
		return fc.fresh("conv", target)
	case isString(target) && isString(src):
		return Term{S: v.S, T: target, Const: v.Const}
	case isString(target):
		if _, ok := src.Underlying().(*types.Slice); ok {
			fc.w.declareUninterp(&Uninterp{Name: "str_of_bytes", Params: []ParamDecl{{"b", types.NewSlice(types.Typ[types.Uint8])}}, Result: types.Typ[types.String]})
			r := Term{S: "(u_str_of_bytes " + v.S + ")", T: target}
			_, _, _, ln, _ := fc.reg().sliceParts(v)
			fc.assume(st, eq("(strlen "+r.S+")", ln))
			return r
		}
		return fc.fresh("str", target)
	case isInterface(target):
		return fc.convertImplicit(st, v, target)
	}
	if sl, ok := target.Underlying().(*types.Slice); ok {
		if isString(src) {
			// []byte(s)
			r := fc.fresh("bytes_of_str", target)
			_, _, _, ln, cp := fc.reg().sliceParts(r)
			fc.assume(st, and(eq(ln, "(strlen "+v.S+")"), eq(cp, ln)))
			_ = sl
			return r
		}
	}
	// same underlying representation (named slice types, struct types, pointers)
	if fc.reg().SortOf(src) == fc.reg().SortOf(target) {
		return Term{S: v.S, T: target}
	}
	fc.fail(call, "unsupported conversion %s -> %s", types.TypeString(src, nil), types.TypeString(target, nil))
	return Term{}
}

func (fc *FuncCtx) convInt(v string, src, target types.Type) string {
	slo, shi, _, _, sok := intRange(src)
	tlo, thi, _, _, tok := intRange(target)
	if !tok {
		return v
	}
	if sok && slo.Cmp(tlo) >= 0 && shi.Cmp(thi) <= 0 {
		return v // widening
	}
	if lit, ok := isLiteral(v); ok && lit.Cmp(tlo) >= 0 && lit.Cmp(thi) <= 0 {
		return v
	}
	return wrapInt(v, target, false)
}

func (fc *FuncCtx) evalBuiltin(st *State, call *ast.CallExpr, name string) []Term {
	switch name {
	case "len", "cap":
		v := fc.eval(st, call.Args[0])
		if _, ok := v.T.Underlying().(*types.Pointer); ok {
			v = fc.reg().deref(v)
		}
		switch u := v.T.Underlying().(type) {
		case *types.Slice:
			_, _, _, ln, cp := fc.reg().sliceParts(v)
			if name == "len" {
				return []Term{{S: ln, T: tInt}}
			}
			return []Term{{S: cp, T: tInt}}
		case *types.Array:
			return []Term{{S: strconv.FormatInt(u.Len(), 10), T: tInt}}
		case *types.Basic:
			if v.Const != nil {
				return []Term{{S: strconv.Itoa(len(*v.Const)), T: tInt}}
			}
			return []Term{{S: "(strlen " + v.S + ")", T: tInt}}
		case *types.Map:
			s := fc.reg().SortOf(v.T)
			fc.lockCheck(st, call.Args[0], "R", call)
			return []Term{{S: "(size_" + s + " " + v.S + ")", T: tInt}}
		case *types.Chan:
			r := fc.fresh("chanlen", tInt)
			fc.assume(st, "(>= "+r.S+" 0)")
			return []Term{r}
		}
	case "new":
		t := fc.typeOf(call.Args[0])
		return []Term{fc.reg().ref(fc.reg().Zero(t), types.NewPointer(t))}
	case "make":
		t := fc.typeOf(call.Args[0])
		switch u := t.Underlying().(type) {
		case *types.Slice:
			ln := fc.eval(st, call.Args[1])
			cp := ln
			if len(call.Args) > 2 {
				cp = fc.eval(st, call.Args[2])
			}
			fc.oblige(st, "panic.make", "", "(and (<= 0 "+ln.S+") (<= "+ln.S+" "+cp.S+"))", call, "make: length and capacity in range")
			fc.allocCheck(st, cp, u.Elem(), call)
			es := fc.reg().SortOf(u.Elem())
			return []Term{fc.reg().mkSlice(t, fc.reg().constArray(es, fc.reg().Zero(u.Elem()).S), "0", ln.S, cp.S)}
		case *types.Map:
			for _, a := range call.Args[1:] {
				fc.eval(st, a)
			}
			return []Term{fc.emptyMap(t)}
		case *types.Chan:
			for _, a := range call.Args[1:] {
				fc.eval(st, a)
			}
			c := fc.fresh("chan", t)
			for _, name := range fc.chanPredsFor(u.Elem()) {
				fc.w.declareUninterp(fc.w.Uninterps[name])
				fc.assume(st, "(u_"+name+" "+c.S+")") // no message has been sent on a new channel
			}
			return []Term{c}
		}
	case "append":
		return []Term{fc.evalAppend(st, call)}
	case "copy":
		dst := fc.eval(st, call.Args[0])
		src := fc.eval(st, call.Args[1])
		_, _, doff, dln, dcp := fc.reg().sliceParts(dst)
		var sln string
		if isString(src.T) {
			sln = "(strlen " + src.S + ")"
		} else {
			_, _, _, sln, _ = fc.reg().sliceParts(src)
		}
		n := ite("(< "+dln+" "+sln+")", dln, sln)
		// contents: fresh array agreeing with src on the copied range is expressed by a quantified fact
		na := fc.fresh("copy", types.NewArray(dst.T.Underlying().(*types.Slice).Elem(), 0))
		_, darr, _, _, _ := fc.reg().sliceParts(dst)
		q := "q_cp"
		fact := "(forall ((" + q + " Int)) (= (select " + na.S + " " + q + ") (ite (and (<= " + doff + " " + q + ") (< " + q + " (+ " + doff + " " + n + "))) "
		if isString(src.T) {
			fact += "(select " + na.S + " " + q + ")"
		} else {
			_, sarr, soff, _, _ := fc.reg().sliceParts(src)
			fact += "(select " + sarr + " (+ " + soff + " (- " + q + " " + doff + ")))"
		}
		fact += " (select " + darr + " " + q + "))))"
		fc.assume(st, fact)
		nd := fc.reg().mkSlice(dst.T, na.S, doff, dln, dcp)
		if fc.addressable(rootLvalue(call.Args[0])) {
			fc.writeSliceContents(st, call.Args[0], nd)
		}
		return []Term{{S: n, T: tInt}}
	case "delete":
		m := fc.eval(st, call.Args[0])
		k := fc.eval(st, call.Args[1])
		s := fc.reg().SortOf(m.T)
		fc.lockCheck(st, call.Args[0], "W", call)
		dom, val, size := "(dom_"+s+" "+m.S+")", "(val_"+s+" "+m.S+")", "(size_"+s+" "+m.S+")"
		nsize := ite("(select "+dom+" "+k.S+")", "(- "+size+" 1)", size)
		nm := Term{S: "(mk_" + s + " (isnil_" + s + " " + m.S + ") (store " + dom + " " + k.S + " false) " + val + " " + nsize + ")", T: m.T}
		fc.assign(st, call.Args[0], nm)
		return nil
	case "panic":
		fc.oblige(st, "panic.explicit", "", "false", call, "explicit panic reachable")
		return nil
	case "close":
		fc.eval(st, call.Args[0])
		return nil
	case "print", "println":
		for _, a := range call.Args {
			fc.eval(st, a)
		}
		return nil
	case "min", "max":
		a, b := fc.eval(st, call.Args[0]), fc.eval(st, call.Args[1])
		op := "<"
		if name == "max" {
			op = ">"
		}
		return []Term{{S: ite("("+op+" "+a.S+" "+b.S+")", a.S, b.S), T: a.T}}
	}
	fc.fail(call, "unsupported builtin %s", name)
	return nil
}

// writeSliceContents: dst expression may be a slice expression x[a:b]; contents written through
// the shared array are made visible in the root slice variable.
func (fc *FuncCtx) writeSliceContents(st *State, dstExpr ast.Expr, nd Term) {
	root := rootLvalue(dstExpr)
	saved := fc.quiet
	fc.quiet = true
	defer func() { fc.quiet = saved }()
	cur := fc.eval(st, root)
	if _, ok := cur.T.Underlying().(*types.Slice); !ok {
		if _, ok := cur.T.Underlying().(*types.Array); ok && root == dstExpr {
			return
		}
		return
	}
	_, narr, _, _, _ := fc.reg().sliceParts(nd)
	_, _, off, ln, cp := fc.reg().sliceParts(cur)
	fc.assign(st, root, fc.reg().mkSlice(cur.T, narr, off, ln, cp))
}

func (fc *FuncCtx) evalAppend(st *State, call *ast.CallExpr) Term {
	s := fc.eval(st, call.Args[0])
	t := fc.typeOf(call)
	if fc.isUntypedNil(s) {
		s = fc.reg().Zero(t)
	}
	sl := t.Underlying().(*types.Slice)
	_, arr, off, ln, cp := fc.reg().sliceParts(Term{S: s.S, T: t})
	if call.Ellipsis != token.NoPos {
		// append(s, t...)
		o := fc.eval(st, call.Args[1])
		var oln string
		var elemAt func(q string) string
		if isString(o.T) {
			oln = "(strlen " + o.S + ")"
			elemAt = nil
		} else {
			_, oarr, ooff, l2, _ := fc.reg().sliceParts(o)
			oln = l2
			elemAt = func(q string) string { return "(select " + oarr + " (+ " + ooff + " " + q + "))" }
		}
		na := fc.fresh("app", types.NewArray(sl.Elem(), 0))
		ncap := fc.fresh("appcap", tInt)
		nlen := "(+ " + ln + " " + oln + ")"
		fc.assume(st, "(>= "+ncap.S+" "+nlen+")")
		fc.assume(st, implies("(<= "+nlen+" "+cp+")", eq(ncap.S, cp)))
		q := "q_ap"
		body := "(select " + arr + " " + q + ")"
		if elemAt != nil {
			body = "(ite (and (<= (+ " + off + " " + ln + ") " + q + ") (< " + q + " (+ " + off + " " + nlen + "))) " + elemAt("(- "+q+" (+ "+off+" "+ln+"))") + " " + body + ")"
			fc.assume(st, "(forall (("+q+" Int)) (= (select "+na.S+" "+q+") "+body+"))")
		} else {
			fc.assume(st, "(forall (("+q+" Int)) (=> (not (and (<= (+ "+off+" "+ln+") "+q+") (< "+q+" (+ "+off+" "+nlen+")))) (= (select "+na.S+" "+q+") "+body+")))")
		}
		// copying an existing slice: its size is memory that already exists, not a wire field
		return fc.reg().mkSlice(t, na.S, off, nlen, ncap.S)
	}
	n := len(call.Args) - 1
	na := arr
	for i, a := range call.Args[1:] {
		v := fc.evalAs(st, a, sl.Elem())
		na = "(store " + na + " (+ " + off + " " + ln + " " + strconv.Itoa(i) + ") " + v.S + ")"
	}
	nlen := "(+ " + ln + " " + strconv.Itoa(n) + ")"
	if n == 0 {
		return Term{S: s.S, T: t}
	}
	ncap := fc.fresh("appcap", tInt)
	fc.assume(st, "(>= "+ncap.S+" "+nlen+")")
	fc.assume(st, implies("(<= "+nlen+" "+cp+")", eq(ncap.S, cp)))
	return fc.reg().mkSlice(t, na, off, nlen, ncap.S)
}

var _ = fmt.Sprint

// dispatchByCases resolves a call through an interface over the repository types that implement
// it (closed world within the module): the callee contract of each implementer applies under the
// condition that the receiver holds a value of that type.
func (fc *FuncCtx) dispatchByCases(st *State, call *ast.CallExpr, fn *types.Func, recvExpr ast.Expr) ([]Term, bool) {
	iface, ok := fn.Type().(*types.Signature).Recv().Type().Underlying().(*types.Interface)
	if !ok {
		return nil, false
	}
	recv := fc.eval(st, recvExpr)
	if fc.reg().SortOf(recv.T) != "Any" {
		return nil, false
	}
	type cand struct {
		t  types.Type
		fn *types.Func
		c  *Contract
	}
	var cands []cand
	var pkgPaths []string
	for p := range fc.w.Pkgs {
		pkgPaths = append(pkgPaths, p)
	}
	sort.Strings(pkgPaths)
	for _, pp := range pkgPaths {
		p := fc.w.Pkgs[pp]
		names := p.Types.Scope().Names()
		for _, n := range names {
			tn, ok := p.Types.Scope().Lookup(n).(*types.TypeName)
			if !ok || isInterface(tn.Type()) {
				continue
			}
			for _, t := range []types.Type{tn.Type(), types.NewPointer(tn.Type())} {
				if !types.Implements(t, iface) {
					continue
				}
				obj, _, _ := types.LookupFieldOrMethod(t, true, p.Types, fn.Name())
				m, ok := obj.(*types.Func)
				if !ok {
					continue
				}
				if c := fc.w.Contracts[m.FullName()]; c != nil {
					cands = append(cands, cand{t, m, c})
				}
				break
			}
		}
	}
	if len(cands) == 0 {
		return nil, false
	}
	sig := fn.Type().(*types.Signature)
	var results []Term
	for i := 0; i < sig.Results().Len(); i++ {
		results = append(results, fc.fresh("r_"+fn.Name(), sig.Results().At(i).Type()))
	}
	// arguments once
	var argTerms []Term
	for i, a := range call.Args {
		argTerms = append(argTerms, fc.evalAs(st, a, sig.Params().At(i).Type()))
	}
	var conds []string
	post := make([]Term, len(argTerms))
	copy(post, argTerms)
	// one havoc per modified location, shared by all candidates (the union of their modifies clauses)
	havoced := map[string]bool{}
	for _, cd := range cands {
		_, pnames, _ := contractParamNames(cd.fn, cd.c)
		for _, m := range cd.c.Modifies {
			root, path := modPath(m.Expr)
			for i, pn := range pnames {
				k := strconv.Itoa(i) + "/" + strings.Join(path, "/")
				if pn == root && !havoced[k] {
					havoced[k] = true
					post[i] = fc.setPath(post[i], path, func(old Term) Term { return fc.fresh("m_"+fn.Name()+"_"+root, old.T) })
				}
			}
		}
	}
	for _, cd := range cands {
		okc, val := fc.typeMatch(st, recv, cd.t)
		conds = append(conds, okc)
		fc.usedContracts[cd.fn.FullName()] = true
		recvName, pnames, rnames := contractParamNames(cd.fn, cd.c)
		pre := fc.w.newEnv(cd.c.Pkg)
		pre.vars[recvName] = val
		for i, a := range argTerms {
			pre.vars[pnames[i]] = a
		}
		fc.bindGlobals(st, pre, cd.c)
		sub := st.clone()
		sub.guard = and(st.guard, okc)
		for i, r := range cd.c.Requires {
			t := fc.cevalIn(pre, r, call)
			fc.oblige(sub, "pre", fn.Name()+"."+types.TypeString(cd.t, func(*types.Package) string { return "" })+"."+strconv.Itoa(i+1), t.S, call, "precondition of "+cd.fn.FullName()+": "+r.Text)
		}
		postEnv := fc.w.newEnv(cd.c.Pkg)
		postEnv.old = pre
		postEnv.vars[recvName] = val
		for i := range argTerms {
			postEnv.vars[pnames[i]] = post[i]
		}
		for i, r := range results {
			postEnv.vars[rnames[i]] = r
			if i == 0 {
				postEnv.vars["result"] = r
			}
		}
		fc.bindGlobals(st, postEnv, cd.c)
		for _, e := range cd.c.Ensures {
			t := fc.cevalIn(postEnv, e, call)
			fc.assume(sub, t.S)
		}
	}
	fc.oblige(st, "panic.nilptr", "", or(conds...), call, "interface receiver "+exprStr(recvExpr)+" holds a value of one of the implementing types")
	// write back modified slice arguments
	for i, a := range call.Args {
		if post[i].S != argTerms[i].S && fc.addressable(a) {
			saved := fc.quiet
			fc.quiet = true
			fc.assign(st, a, post[i])
			fc.quiet = saved
		}
	}
	return results, true
}

// defaultExtern is the contract assumed for a function outside the repository's module that has no written
// contract: it returns arbitrary values of its result types, may change whatever its pointer, slice and map
// arguments refer to, does not panic and changes no package variable of the repository. Functions that take a
// function value are excluded (the callee could run repository code). The use is reported as an assumption.
func (w *World) defaultExtern(key string, fn *types.Func) *Contract {
	if c, ok := w.defaultContracts[key]; ok {
		return c
	}
	if fn.Pkg() == nil || fn.Pkg().Path() == repoModule || strings.HasPrefix(fn.Pkg().Path(), repoModule+"/") {
		return nil
	}
	sig := fn.Type().(*types.Signature)
	recv, params, _ := contractParamNames(fn, nil)
	c := &Contract{Key: key, Loops: map[int]*LoopContract{}, Src: "default contract", Trusted: true, Opts: map[string]string{"default": "1"}}
	add := func(name string, t types.Type) bool {
		switch u := t.Underlying().(type) {
		case *types.Signature:
			return false
		case *types.Slice:
			if _, isFn := u.Elem().Underlying().(*types.Signature); isFn {
				return false
			}
			if _, isIface := u.Elem().Underlying().(*types.Interface); isIface {
				return true // variadic ...interface{}: boxed values are not written through
			}
			e, _ := parseCExpr("contents(" + name + ")")
			c.Modifies = append(c.Modifies, &Clause{Kind: "modifies", Text: "contents(" + name + ")", Expr: e, Src: c.Src})
		case *types.Pointer, *types.Map:
			e, _ := parseCExpr(name)
			c.Modifies = append(c.Modifies, &Clause{Kind: "modifies", Text: name, Expr: e, Src: c.Src})
		}
		return true
	}
	ok := true
	if sig.Recv() != nil {
		ok = add(recv, sig.Recv().Type()) && ok
	}
	for i := 0; i < sig.Params().Len(); i++ {
		ok = add(params[i], sig.Params().At(i).Type()) && ok
	}
	if !ok {
		c = nil
	}
	if w.defaultContracts == nil {
		w.defaultContracts = map[string]*Contract{}
	}
	w.defaultContracts[key] = c
	if c != nil {
		w.Contracts[key] = c
	}
	return c
}

// canInline: a repository function without a contract is executed in place (its body becomes part of the
// caller's verification conditions) when it is not recursive and does not reassign its pointer, slice or map
// parameters (their final values are written back to the caller's arguments).
func (fc *FuncCtx) canInline(key string, decl *ast.FuncDecl, fn *types.Func) string {
	if decl.Body == nil {
		return "no body"
	}
	if len(fc.inlineStack) >= 4 {
		return "inlining depth"
	}
	if key == fc.key {
		return "recursive"
	}
	for _, k := range fc.inlineStack {
		if k == key {
			return "recursive"
		}
	}
	pkg := fc.w.FuncPkg[key]
	if pkg == nil {
		return "package not loaded"
	}
	sig := fn.Type().(*types.Signature)
	refParam := map[*types.Var]bool{}
	note := func(v *types.Var) {
		if v == nil {
			return
		}
		switch v.Type().Underlying().(type) {
		case *types.Pointer, *types.Slice, *types.Map:
			refParam[v] = true
		}
	}
	note(sig.Recv())
	for i := 0; i < sig.Params().Len(); i++ {
		note(sig.Params().At(i))
	}
	why := ""
	ast.Inspect(decl.Body, func(n ast.Node) bool {
		switch x := n.(type) {
		case *ast.AssignStmt:
			for _, l := range x.Lhs {
				if id, ok := unparen(l).(*ast.Ident); ok {
					if v, ok := pkg.TypesInfo.ObjectOf(id).(*types.Var); ok && refParam[v] {
						why = "parameter " + v.Name() + " is reassigned"
					}
				}
			}
		case *ast.UnaryExpr:
			if id, ok := unparen(x.X).(*ast.Ident); ok && x.Op == token.AND {
				if v, ok := pkg.TypesInfo.ObjectOf(id).(*types.Var); ok && refParam[v] {
					why = "address of parameter " + v.Name() + " is taken"
				}
			}
		}
		return why == ""
	})
	return why
}

func (fc *FuncCtx) inlineCall(st *State, call *ast.CallExpr, fn *types.Func, recvExpr ast.Expr, key string, decl *ast.FuncDecl) []Term {
	return fc.inlineCallIn(st, call, fn, recvExpr, key, decl, fc.w.FuncPkg[key])
}

// localClosure: the function literal a local variable is bound to, when the variable is defined exactly once by
// `f := func(...) {...}` (or `var f = func...`) in the function being verified and never assigned again.
func (fc *FuncCtx) localClosure(id *ast.Ident) *ast.FuncLit {
	obj, ok := fc.info.ObjectOf(id).(*types.Var)
	if !ok || !fc.isLocal(obj) || fc.decl == nil || fc.decl.Body == nil {
		return nil
	}
	var lit *ast.FuncLit
	n := 0
	ast.Inspect(fc.decl.Body, func(nd ast.Node) bool {
		switch a := nd.(type) {
		case *ast.AssignStmt:
			for i, l := range a.Lhs {
				if lid, ok := l.(*ast.Ident); ok && fc.info.ObjectOf(lid) == obj {
					n++
					if len(a.Lhs) == len(a.Rhs) {
						if fl, ok := unparen(a.Rhs[i]).(*ast.FuncLit); ok && a.Tok == token.DEFINE {
							lit = fl
						}
					}
				}
			}
		case *ast.ValueSpec:
			for i, nm := range a.Names {
				if fc.info.ObjectOf(nm) == obj {
					n++
					if i < len(a.Values) {
						if fl, ok := unparen(a.Values[i]).(*ast.FuncLit); ok {
							lit = fl
						}
					}
				}
			}
		case *ast.UnaryExpr:
			if a.Op == token.AND {
				if lid, ok := unparen(a.X).(*ast.Ident); ok && fc.info.ObjectOf(lid) == obj {
					n += 2
				}
			}
		}
		return true
	})
	if n != 1 {
		return nil
	}
	return lit
}

func (fc *FuncCtx) inlineCallIn(st *State, call *ast.CallExpr, fn *types.Func, recvExpr ast.Expr, key string, decl *ast.FuncDecl, pkg *packages.Package) []Term {
	sig := fn.Type().(*types.Signature)
	args := fc.bindArgs(st, call, fn, recvExpr, nil)
	fc.usedContracts["inlined:"+key] = true
	// the callee runs in its own syntactic context
	sInfo, sPkg, sDecl, sContract := fc.info, fc.pkg, fc.decl, fc.contract
	sResultVars, sNamed, sDeferred := fc.resultVars, fc.namedResults, fc.deferred
	sReturns, sRetVals, sBreaks, sLoopOrd := fc.returns, fc.retVals, fc.breakTargets, fc.loopOrd
	restore := func() {
		fc.info, fc.pkg, fc.decl, fc.contract = sInfo, sPkg, sDecl, sContract
		fc.resultVars, fc.namedResults, fc.deferred = sResultVars, sNamed, sDeferred
		fc.returns, fc.retVals, fc.breakTargets, fc.loopOrd = sReturns, sRetVals, sBreaks, sLoopOrd
		fc.inlineStack = fc.inlineStack[:len(fc.inlineStack)-1]
	}
	opts := map[string]string{}
	if sContract != nil {
		for k, v := range sContract.Opts {
			opts[k] = v
		}
	}
	fc.inlineStack = append(fc.inlineStack, key)
	fc.info, fc.pkg, fc.decl = pkg.TypesInfo, pkg, decl
	fc.contract = &Contract{Key: key, Pkg: pkg, Loops: map[int]*LoopContract{}, Opts: opts}
	fc.resultVars, fc.namedResults, fc.deferred = nil, false, nil
	fc.returns, fc.retVals, fc.breakTargets = nil, nil, nil
	fc.loopOrd = 100 * len(fc.inlineStack)
	defer restore()
	ast.Inspect(decl, func(n ast.Node) bool {
		if id, ok := n.(*ast.Ident); ok {
			if v, ok := fc.info.Defs[id].(*types.Var); ok {
				fc.allVars[v] = true
			}
		}
		return true
	})
	bindVar := func(v *types.Var, t Term) {
		st.vars[v] = Term{S: t.S, T: v.Type(), Const: t.Const}
	}
	ai := 0
	var paramOf []*types.Var
	if sig.Recv() != nil && recvExpr != nil {
		bindVar(sig.Recv(), args[0].pre)
		paramOf = append(paramOf, sig.Recv())
		ai = 1
	}
	for j := 0; j < sig.Params().Len(); j++ {
		bindVar(sig.Params().At(j), args[ai+j].pre)
		paramOf = append(paramOf, sig.Params().At(j))
	}
	for i := 0; i < sig.Results().Len(); i++ {
		rv := sig.Results().At(i)
		fc.resultVars = append(fc.resultVars, rv)
		if rv.Name() != "" && rv.Name() != "_" {
			fc.namedResults = true
		}
		st.vars[rv] = fc.reg().Zero(rv.Type())
	}
	end := fc.exec(st.clone(), decl.Body)
	if !end.dead {
		if sig.Results().Len() > 0 && !fc.namedResults {
			fc.fail(decl, "missing return")
		}
		fc.execReturn(end, &ast.ReturnStmt{Return: decl.Body.Rbrace})
	}
	merged := fc.merge(fc.returns)
	resultVars := fc.resultVars
	restore()
	fc.inlineStack = append(fc.inlineStack, key) // balanced by the deferred restore
	if merged.dead {
		// the callee never returns (every path panics or exits)
		*st = *merged
		var rs []Term
		for _, rv := range resultVars {
			rs = append(rs, fc.reg().Zero(rv.Type()))
		}
		return rs
	}
	*st = *merged
	var results []Term
	for _, rv := range resultVars {
		results = append(results, st.vars[rv])
	}
	// what the callee did through its pointer, slice and map parameters is visible in the caller's arguments
	for i, a := range args {
		if i >= len(paramOf) || a.expr == nil {
			continue
		}
		switch paramOf[i].Type().Underlying().(type) {
		case *types.Pointer, *types.Slice, *types.Map:
		default:
			continue
		}
		post, ok := st.vars[paramOf[i]]
		if !ok || post.S == a.pre.S {
			continue
		}
		fc.writeBack(st, a, post, call)
	}
	return results
}

type pendingAlias struct {
	call   *ast.CallExpr
	result int
	base   ast.Expr
	idx    Term
}

// elementAlias builds the expression base[#k] where #k is a fresh ghost variable holding the (frozen) index.
func (fc *FuncCtx) elementAlias(st *State, base ast.Expr, idx Term) ast.Expr {
	fc.nfresh++
	name := fmt.Sprintf("idx#%d", fc.nfresh)
	v := types.NewVar(token.NoPos, nil, name, types.Typ[types.Int])
	id := &ast.Ident{Name: name}
	fc.info.Uses[id] = v
	fc.info.Types[id] = types.TypeAndValue{Type: types.Typ[types.Int]}
	st.vars[v] = Term{S: idx.S, T: types.Typ[types.Int]}
	if pt, ok := fc.typeOf(base).Underlying().(*types.Pointer); ok {
		// pointer to the slice (pointer receiver calling a value method): the element of *base
		star := &ast.StarExpr{X: base}
		fc.info.Types[star] = types.TypeAndValue{Type: pt.Elem()}
		base = star
	}
	ix := &ast.IndexExpr{X: base, Index: id}
	if sl, ok := fc.typeOf(base).Underlying().(*types.Slice); ok {
		fc.info.Types[ix] = types.TypeAndValue{Type: sl.Elem()}
	}
	return ix
}
