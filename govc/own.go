package main

// Region ownership (C12, C16) and event counters (C13): a static, path-based analysis carried in
// the symbolic state. Every slice-carrying location (source text of an lvalue: "msg", "mirror.body",
// "b") maps to the region it points into; Pool.Put and channel sends release/transfer regions.
//   own.released  a read of a location whose region was released or handed over
//   own.double    a second release of the same region
//   own.fresh     a value sent on a channel borrows a region the sender keeps using
//   own.carried   a loop-carried location that is read before it is written must be live at the end of the body

import (
	"go/ast"
	"go/token"
	"go/types"
	"strconv"
	"strings"
)

type region struct {
	base     string
	borrowed bool
}

func (fc *FuncCtx) ownOn() bool {
	return fc.contract != nil && fc.contract.Opts["ownership"] != ""
}

func (fc *FuncCtx) newRegion(kind string) region {
	fc.nregion++
	return region{base: kind + "#" + strconv.Itoa(fc.nregion)}
}

// regionOf computes the region an expression's value points into ("" base: none / unknown).
func (fc *FuncCtx) regionOf(st *State, e ast.Expr) region {
	switch x := unparen(e).(type) {
	case *ast.Ident, *ast.SelectorExpr:
		key := exprStr(x)
		for k := key; k != ""; {
			if r, ok := st.regions[k]; ok {
				return r
			}
			i := strings.LastIndex(k, ".")
			if i < 0 {
				break
			}
			k = k[:i]
		}
	case *ast.SliceExpr:
		return fc.regionOf(st, x.X)
	case *ast.TypeAssertExpr:
		return fc.regionOf(st, x.X)
	case *ast.StarExpr:
		return fc.regionOf(st, x.X)
	case *ast.UnaryExpr:
		if x.Op == token.ARROW {
			return fc.newRegion("recv")
		}
		if x.Op == token.AND {
			if _, lit := unparen(x.X).(*ast.CompositeLit); lit {
				return fc.newRegion("fresh")
			}
			// the address of a variable the function keeps (and may overwrite later)
			return region{base: "var:" + exprStr(x.X), borrowed: true}
		}
		return fc.regionOf(st, x.X)
	case *ast.CompositeLit:
		return fc.newRegion("fresh")
	case *ast.CallExpr:
		if id, ok := unparen(x.Fun).(*ast.Ident); ok {
			if _, isB := fc.info.ObjectOf(id).(*types.Builtin); isB {
				switch id.Name {
				case "make", "new":
					return fc.newRegion("fresh")
				case "append":
					if _, lit := unparen(x.Args[0]).(*ast.CompositeLit); lit {
						return fc.newRegion("fresh")
					}
					return fc.regionOf(st, x.Args[0])
				}
				return region{}
			}
		}
		if tv, ok := fc.info.Types[x.Fun]; ok && tv.IsType() {
			if isString(tv.Type) {
				return region{} // string(b) copies
			}
			return fc.regionOf(st, x.Args[0])
		}
		fn, recvExpr := fc.calleeOf(x)
		if fn == nil {
			return region{}
		}
		if fn.FullName() == "(*sync.Pool).Get" {
			return fc.newRegion("pool")
		}
		if c := fc.w.Contracts[fn.FullName()]; c != nil {
			if b := c.Opts["borrows"]; b != "" {
				// "borrows <param>": the result points into the memory of that argument
				recvName, pnames, _ := contractParamNames(fn, c)
				var src ast.Expr
				if b == recvName && recvExpr != nil {
					src = recvExpr
				}
				for i, pn := range pnames {
					if pn == b && i < len(x.Args) {
						src = x.Args[i]
					}
				}
				if src != nil {
					r := fc.regionOf(st, src)
					if r.base != "" {
						return region{base: r.base, borrowed: true}
					}
				}
			}
		}
	}
	return region{}
}

// ownAssign records the region of the assigned location.
func (fc *FuncCtx) ownAssign(st *State, lhs ast.Expr, r region) {
	if !fc.ownOn() {
		return
	}
	key := exprStr(unparen(lhs))
	if key == "_" {
		return
	}
	for k := range st.regions {
		if k == key || strings.HasPrefix(k, key+".") {
			delete(st.regions, k)
		}
	}
	if r.base == "" {
		return
	}
	// a struct value (a queued message) carries its buffer in its byte-slice fields
	if t := fc.typeOf(lhs); t != nil {
		if stt, ok := t.Underlying().(*types.Struct); ok {
			for i := 0; i < stt.NumFields(); i++ {
				if sl, ok := stt.Field(i).Type().Underlying().(*types.Slice); ok {
					if b, ok := sl.Elem().Underlying().(*types.Basic); ok && b.Kind() == types.Uint8 {
						st.regions[key+"."+stt.Field(i).Name()] = r
					}
				}
			}
			return
		}
	}
	st.regions[key] = r
}

// ownAssignLit: x := T{F: e, ...} — the slice, pointer and map fields of x point where the literal's operands point.
func (fc *FuncCtx) ownAssignLit(st *State, lhs, rhs ast.Expr) {
	if !fc.ownOn() {
		return
	}
	cl, ok := unparen(rhs).(*ast.CompositeLit)
	if !ok {
		if ue, isU := unparen(rhs).(*ast.UnaryExpr); isU && ue.Op == token.AND {
			cl, ok = unparen(ue.X).(*ast.CompositeLit)
		}
		if !ok {
			return
		}
	}
	key := exprStr(unparen(lhs))
	if key == "_" {
		return
	}
	for _, el := range cl.Elts {
		kv, ok := el.(*ast.KeyValueExpr)
		if !ok {
			continue
		}
		name, ok := kv.Key.(*ast.Ident)
		if !ok {
			continue
		}
		switch fc.typeOf(kv.Value).Underlying().(type) {
		case *types.Slice, *types.Pointer, *types.Map:
			if r := fc.regionOf(st, kv.Value); r.base != "" {
				st.regions[key+"."+name.Name] = r
			}
		}
	}
}

// ownConsume: a call whose contract says `opt consumes <param>` keeps what that argument points to (a cache insert, a
// queue): the regions reachable from the argument are handed over, like the regions of a value sent on a channel.
func (fc *FuncCtx) ownConsume(st *State, arg ast.Expr, n ast.Node) {
	if !fc.ownOn() {
		return
	}
	var rs []region
	if r := fc.regionOf(st, arg); r.base != "" {
		rs = append(rs, r)
	}
	key := exprStr(unparen(arg))
	for k, r := range st.regions {
		if strings.HasPrefix(k, key+".") {
			rs = append(rs, r)
		}
	}
	for _, r := range rs {
		if r.borrowed {
			fc.oblige(st, "own.fresh", "", "false", n, "the value handed over ("+exprStr(arg)+") points into a buffer ("+r.base+") that the caller keeps and reuses; it must be a fresh copy")
			continue
		}
		st.released[r.base] = true
	}
}

// ownUse: reading a location whose region is gone.
func (fc *FuncCtx) ownUse(st *State, e ast.Expr) {
	if !fc.ownOn() || fc.quiet {
		return
	}
	r := fc.regionOf(st, e)
	if r.base != "" && st.released[r.base] {
		fc.oblige(st, "own.released", "", "false", e, "read of "+exprStr(e)+" after its buffer ("+r.base+") was returned to the pool or handed to another goroutine")
	}
}

func (fc *FuncCtx) ownRelease(st *State, e ast.Expr, n ast.Node) {
	if !fc.ownOn() {
		return
	}
	r := fc.regionOf(st, e)
	if r.base == "" {
		return
	}
	if st.released[r.base] {
		fc.oblige(st, "own.double", "", "false", n, "the buffer of "+exprStr(e)+" ("+r.base+") is returned to the pool a second time")
	}
	if r.borrowed {
		fc.oblige(st, "own.released", "", "false", n, exprStr(e)+" only borrows its buffer ("+r.base+"); it is not this value's to release")
	}
	st.released[r.base] = true
}

// ownSend: the regions reachable from a sent value are handed over.
func (fc *FuncCtx) ownSend(st *State, v ast.Expr, n ast.Node) {
	if !fc.ownOn() {
		return
	}
	var rs []region
	if r := fc.regionOf(st, v); r.base != "" {
		rs = append(rs, r)
	}
	// a struct literal hands over what its fields point to
	if cl, ok := unparen(v).(*ast.CompositeLit); ok {
		for _, el := range cl.Elts {
			if kv, ok := el.(*ast.KeyValueExpr); ok {
				el = kv.Value
			}
			switch fc.typeOf(el).Underlying().(type) {
			case *types.Slice, *types.Pointer, *types.Map:
				if r := fc.regionOf(st, el); r.base != "" {
					rs = append(rs, r)
				}
			}
		}
	}
	key := exprStr(unparen(v))
	for k, r := range st.regions {
		if strings.HasPrefix(k, key+".") {
			rs = append(rs, r)
		}
	}
	for _, r := range rs {
		if r.borrowed {
			fc.oblige(st, "own.fresh", "", "false", n, "the value sent ("+exprStr(v)+") points into a buffer ("+r.base+") that the sender keeps and reuses; it must be a fresh copy")
			continue
		}
		if st.released[r.base] {
			fc.oblige(st, "own.released", "", "false", n, "the value sent ("+exprStr(v)+") points into a buffer that was already released")
		}
		st.released[r.base] = true
	}
}

// firstOccurrenceIsWrite: the first syntactic occurrence of a root variable in a loop body is an
// assignment target (so a stale value from the previous iteration is never read).
func firstOccurrenceIsWrite(body *ast.BlockStmt, name string) bool {
	first := token.Pos(0)
	write := false
	ast.Inspect(body, func(n ast.Node) bool {
		switch a := n.(type) {
		case *ast.AssignStmt:
			for _, l := range a.Lhs {
				if id, ok := l.(*ast.Ident); ok && id.Name == name {
					if first == 0 || id.Pos() < first {
						// the right-hand side is evaluated first: a read there comes earlier
						rhsReads := false
						for _, r := range a.Rhs {
							ast.Inspect(r, func(m ast.Node) bool {
								if rid, ok := m.(*ast.Ident); ok && rid.Name == name {
									rhsReads = true
								}
								return true
							})
						}
						first = id.Pos()
						write = !rhsReads
					}
				}
			}
		case *ast.Ident:
			if a.Name == name && (first == 0 || a.Pos() < first) {
				first = a.Pos()
				write = false
			}
		}
		return true
	})
	return write
}

// ownLoopEnd: stale loop-carried locations.
func (fc *FuncCtx) ownLoopEnd(end *State, body *ast.BlockStmt, n ast.Node) {
	if !fc.ownOn() {
		return
	}
	for k, r := range end.regions {
		if !end.released[r.base] {
			continue
		}
		root := k
		if i := strings.Index(k, "."); i >= 0 {
			root = k[:i]
		}
		if firstOccurrenceIsWrite(body, root) || firstSelectorIsWrite(body, k) {
			continue
		}
		fc.oblige(end, "own.carried", k, "false", n, k+" still refers to a released buffer ("+r.base+") at the end of the iteration and is read again before being reassigned")
	}
}

// ownLoopHead: in an arbitrary iteration the loop-carried locations refer to live buffers
// (own.carried at the end of the body justifies this).
func (fc *FuncCtx) ownLoopHead(h *State, locs []havocLoc) {
	if !fc.ownOn() {
		return
	}
	roots := map[string]bool{}
	for _, l := range locs {
		if l.obj != nil {
			roots[l.obj.Name()] = true
		} else if l.base != nil {
			k := exprStr(l.base)
			if i := strings.Index(k, "."); i >= 0 {
				k = k[:i]
			}
			roots[k] = true
		}
	}
	for k, r := range h.regions {
		root := k
		if i := strings.Index(k, "."); i >= 0 {
			root = k[:i]
		}
		if roots[root] {
			nr := fc.newRegion("carried")
			nr.borrowed = r.borrowed
			h.regions[k] = nr
		}
	}	// a slice-typed local the body assigns may carry a buffer from an earlier iteration
	for _, l := range locs {
		if l.obj == nil || len(l.path) > 0 || !fc.isLocal(l.obj) {
			continue
		}
		if _, isSlice := l.obj.Type().Underlying().(*types.Slice); !isSlice {
			continue
		}
		if _, have := h.regions[l.obj.Name()]; !have {
			h.regions[l.obj.Name()] = fc.newRegion("carried")
		}
	}
}

// firstSelectorIsWrite: the first occurrence of the location x.f in the body is the target of an assignment.
func firstSelectorIsWrite(body *ast.BlockStmt, key string) bool {
	first := token.Pos(0)
	write := false
	ast.Inspect(body, func(n ast.Node) bool {
		switch a := n.(type) {
		case *ast.AssignStmt:
			for _, l := range a.Lhs {
				if se, ok := l.(*ast.SelectorExpr); ok && exprStr(se) == key {
					if first == 0 || se.Pos() < first {
						rhsReads := false
						for _, r := range a.Rhs {
							ast.Inspect(r, func(m ast.Node) bool {
								if rs, ok := m.(*ast.SelectorExpr); ok && exprStr(rs) == key {
									rhsReads = true
								}
								return true
							})
						}
						first = se.Pos()
						write = !rhsReads
					}
				}
			}
		case *ast.SelectorExpr:
			if exprStr(a) == key && (first == 0 || a.Pos() < first) {
				first = a.Pos()
				write = false
			}
		}
		return true
	})
	return write
}
