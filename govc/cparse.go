package main

// Parser for the contract expression language (Gobra-like, Go expression syntax plus
// ==>, <==>, forall/exists, old(), c ? a : b).

import (
	"fmt"
	"strings"
	"unicode"
)

type CExpr interface{}

type (
	CIdent struct{ Name string }
	CInt   struct{ Val string }
	CStr   struct{ Val string }
	CBool  struct{ Val bool }
	CNil   struct{}
	CUnary struct {
		Op string
		X  CExpr
	}
	CBinary struct {
		Op   string
		X, Y CExpr
	}
	CCall struct {
		Fun  string
		Recv CExpr // non-nil for x.f(args)
		Args []CExpr
	}
	CSelect struct {
		X   CExpr
		Sel string
	}
	CIndex struct{ X, I CExpr }
	CSlice struct{ X, Lo, Hi CExpr }
	CQuant struct {
		Forall  bool
		Vars    []string
		Types   []string // optional type text per var ("" = int)
		Body    CExpr
		Trigger []CExpr // optional explicit (multi-)trigger: forall x :: {f(x), g(x)} body
	}
	CIte struct{ C, A, B CExpr }
)

type ctok struct {
	kind string // id int str op eof
	s    string
	pos  int
}

func clex(src string) ([]ctok, error) {
	var toks []ctok
	i := 0
	ops := []string{"<==>", "==>", "&&", "||", "==", "!=", "<=", ">=", "<<", ">>", "::", "..", "+", "-", "*", "/", "%", "<", ">", "!", "(", ")", "[", "]", ",", ".", ":", "?", "&", "|", "^", "{", "}"}
	for i < len(src) {
		c := rune(src[i])
		if unicode.IsSpace(c) {
			i++
			continue
		}
		if unicode.IsLetter(c) || c == '_' {
			j := i
			for j < len(src) && (unicode.IsLetter(rune(src[j])) || unicode.IsDigit(rune(src[j])) || src[j] == '_') {
				j++
			}
			toks = append(toks, ctok{"id", src[i:j], i})
			i = j
			continue
		}
		if unicode.IsDigit(c) {
			j := i
			if strings.HasPrefix(src[i:], "0x") || strings.HasPrefix(src[i:], "0X") {
				j = i + 2
				for j < len(src) && strings.ContainsRune("0123456789abcdefABCDEF_", rune(src[j])) {
					j++
				}
			} else {
				for j < len(src) && (unicode.IsDigit(rune(src[j])) || src[j] == '_') {
					j++
				}
			}
			toks = append(toks, ctok{"int", strings.ReplaceAll(src[i:j], "_", ""), i})
			i = j
			continue
		}
		if c == '"' {
			j := i + 1
			for j < len(src) && src[j] != '"' {
				if src[j] == '\\' {
					j++
				}
				j++
			}
			if j >= len(src) {
				return nil, fmt.Errorf("unterminated string at %d", i)
			}
			toks = append(toks, ctok{"str", src[i : j+1], i})
			i = j + 1
			continue
		}
		matched := false
		for _, op := range ops {
			if strings.HasPrefix(src[i:], op) {
				toks = append(toks, ctok{"op", op, i})
				i += len(op)
				matched = true
				break
			}
		}
		if !matched {
			return nil, fmt.Errorf("bad character %q at %d in %q", c, i, src)
		}
	}
	toks = append(toks, ctok{"eof", "", len(src)})
	return toks, nil
}

type cparser struct {
	toks []ctok
	p    int
	src  string
}

func parseCExpr(src string) (e CExpr, err error) {
	toks, err := clex(src)
	if err != nil {
		return nil, err
	}
	ps := &cparser{toks: toks, src: src}
	defer func() {
		if r := recover(); r != nil {
			if pe, ok := r.(cperr); ok {
				err = fmt.Errorf("%s in contract expression %q", string(pe), src)
				return
			}
			panic(r)
		}
	}()
	e = ps.expr(0)
	if ps.peek().kind != "eof" {
		ps.fail("unexpected token %q", ps.peek().s)
	}
	return e, nil
}

type cperr string

func (ps *cparser) fail(f string, a ...interface{}) {
	panic(cperr(fmt.Sprintf(f, a...) + fmt.Sprintf(" at offset %d", ps.peek().pos)))
}
func (ps *cparser) peek() ctok { return ps.toks[ps.p] }
func (ps *cparser) next() ctok { t := ps.toks[ps.p]; ps.p++; return t }
func (ps *cparser) isOp(s string) bool {
	t := ps.peek()
	return t.kind == "op" && t.s == s
}
func (ps *cparser) expect(s string) {
	if !ps.isOp(s) {
		ps.fail("expected %q, got %q", s, ps.peek().s)
	}
	ps.next()
}

// precedence (low to high): <==> 1, ==> 2 (right), ?: 3, || 4, && 5, cmp 6, + - | ^ 7, * / % << >> & 8
func binPrec(op string) int {
	switch op {
	case "<==>":
		return 1
	case "==>":
		return 2
	case "||":
		return 4
	case "&&":
		return 5
	case "==", "!=", "<", "<=", ">", ">=":
		return 6
	case "+", "-", "|", "^":
		return 7
	case "*", "/", "%", "<<", ">>", "&":
		return 8
	}
	return 0
}

func (ps *cparser) expr(minPrec int) CExpr {
	lhs := ps.unary()
	for {
		t := ps.peek()
		if t.kind != "op" {
			break
		}
		if t.s == "?" && minPrec <= 3 {
			ps.next()
			a := ps.expr(3)
			ps.expect(":")
			b := ps.expr(3)
			lhs = &CIte{lhs, a, b}
			continue
		}
		prec := binPrec(t.s)
		if prec == 0 || prec < minPrec {
			break
		}
		ps.next()
		var rhs CExpr
		if t.s == "==>" {
			rhs = ps.expr(prec) // right assoc
		} else {
			rhs = ps.expr(prec + 1)
		}
		lhs = &CBinary{t.s, lhs, rhs}
	}
	return lhs
}

func (ps *cparser) unary() CExpr {
	t := ps.peek()
	if t.kind == "op" && (t.s == "!" || t.s == "-" || t.s == "*") {
		// a leading * is a pointer type (argument of unbox/isboxed/tyof) or a dereference
		ps.next()
		return &CUnary{t.s, ps.unary()}
	}
	return ps.postfix(ps.primary())
}

func (ps *cparser) primary() CExpr {
	t := ps.next()
	switch t.kind {
	case "int":
		return &CInt{t.s}
	case "str":
		return &CStr{t.s}
	case "id":
		switch t.s {
		case "true":
			return &CBool{true}
		case "false":
			return &CBool{false}
		case "nil":
			return &CNil{}
		case "tyof":
			if ps.isOp("(") {
				// raw type text up to the matching parenthesis
				start := ps.peek().pos + 1
				depth := 0
				for {
					tk := ps.next()
					if tk.kind == "eof" {
						ps.fail("unterminated tyof(")
					}
					if tk.kind == "op" && tk.s == "(" {
						depth++
					} else if tk.kind == "op" && tk.s == ")" {
						depth--
						if depth == 0 {
							return &CCall{Fun: "tyof", Args: []CExpr{&CIdent{Name: strings.TrimSpace(ps.src[start:tk.pos])}}}
						}
					}
				}
			}
		case "forall", "exists":
			q := &CQuant{Forall: t.s == "forall"}
			for {
				v := ps.next()
				if v.kind != "id" {
					ps.fail("expected bound variable")
				}
				q.Vars = append(q.Vars, v.s)
				ty := ""
				// optional type: forall k int, a net.IP, b []byte :: body
				for !(ps.isOp(",") || ps.isOp("::")) && ps.peek().kind != "eof" {
					ty += ps.next().s
				}
				q.Types = append(q.Types, ty)
				if ps.isOp(",") {
					ps.next()
					continue
				}
				break
			}
			ps.expect("::")
			if ps.isOp("{") {
				// explicit trigger: forall x :: {f(x)} body
				ps.next()
				for {
					q.Trigger = append(q.Trigger, ps.expr(0))
					if ps.isOp(",") {
						ps.next()
						continue
					}
					break
				}
				ps.expect("}")
			}
			q.Body = ps.expr(0)
			return q
		}
		return &CIdent{t.s}
	case "op":
		if t.s == "(" {
			e := ps.expr(0)
			ps.expect(")")
			return e
		}
	}
	ps.p--
	ps.fail("unexpected token %q", t.s)
	return nil
}

func (ps *cparser) args() []CExpr {
	var as []CExpr
	if ps.isOp(")") {
		ps.next()
		return as
	}
	for {
		as = append(as, ps.expr(0))
		if ps.isOp(",") {
			ps.next()
			continue
		}
		ps.expect(")")
		return as
	}
}

func (ps *cparser) postfix(e CExpr) CExpr {
	for {
		switch {
		case ps.isOp("("):
			ps.next()
			as := ps.args()
			switch f := e.(type) {
			case *CIdent:
				e = &CCall{Fun: f.Name, Args: as}
			case *CSelect:
				e = &CCall{Fun: f.Sel, Recv: f.X, Args: as}
			default:
				ps.fail("bad call")
			}
		case ps.isOp("."):
			ps.next()
			n := ps.next()
			if n.kind != "id" {
				ps.fail("expected field name")
			}
			e = &CSelect{e, n.s}
		case ps.isOp("["):
			ps.next()
			var lo, hi CExpr
			if !ps.isOp(":") {
				lo = ps.expr(0)
			}
			if ps.isOp(":") {
				ps.next()
				if !ps.isOp("]") {
					hi = ps.expr(0)
				}
				ps.expect("]")
				e = &CSlice{e, lo, hi}
			} else {
				ps.expect("]")
				e = &CIndex{e, lo}
			}
		default:
			return e
		}
	}
}

func cexprString(e CExpr) string {
	switch x := e.(type) {
	case *CIdent:
		return x.Name
	case *CInt:
		return x.Val
	case *CStr:
		return x.Val
	case *CBool:
		return fmt.Sprint(x.Val)
	case *CNil:
		return "nil"
	case *CUnary:
		return x.Op + cexprString(x.X)
	case *CBinary:
		return "(" + cexprString(x.X) + " " + x.Op + " " + cexprString(x.Y) + ")"
	case *CCall:
		var as []string
		for _, a := range x.Args {
			as = append(as, cexprString(a))
		}
		r := ""
		if x.Recv != nil {
			r = cexprString(x.Recv) + "."
		}
		return r + x.Fun + "(" + strings.Join(as, ", ") + ")"
	case *CSelect:
		return cexprString(x.X) + "." + x.Sel
	case *CIndex:
		return cexprString(x.X) + "[" + cexprString(x.I) + "]"
	case *CSlice:
		lo, hi := "", ""
		if x.Lo != nil {
			lo = cexprString(x.Lo)
		}
		if x.Hi != nil {
			hi = cexprString(x.Hi)
		}
		return cexprString(x.X) + "[" + lo + ":" + hi + "]"
	case *CQuant:
		k := "exists"
		if x.Forall {
			k = "forall"
		}
		return "(" + k + " " + strings.Join(x.Vars, ",") + " :: " + cexprString(x.Body) + ")"
	case *CIte:
		return "(" + cexprString(x.C) + " ? " + cexprString(x.A) + " : " + cexprString(x.B) + ")"
	}
	return "?"
}
