package main

// Discharge of obligations by racing z3 4.8.12, z3 5.1.0 (z3-new) and cvc5.

import (
	"bytes"
	"context"
	"fmt"
	"os"
	"os/exec"
	"path/filepath"
	"strings"
	"sync"
	"time"
)

type solverSpec struct {
	name string
	argv func(file string, timeoutS int) []string
}

var solvers = []solverSpec{
	{"z3-5.1.0", func(f string, t int) []string { return []string{"z3-new", fmt.Sprintf("-T:%d", t), f} }},
	{"z3-5.1.0 auto_config=false", func(f string, t int) []string {
		if t > 6 {
			t = 6
		}
		return []string{"z3-new", fmt.Sprintf("-T:%d", t), "auto_config=false", f}
	}},
	{"z3-4.8.12", func(f string, t int) []string { return []string{"z3", fmt.Sprintf("-T:%d", t), f} }},
	{"cvc5-1.0", func(f string, t int) []string { return []string{"cvc5", fmt.Sprintf("--tlimit=%d", t*1000), f} }},
}

var retryPortfolio = []solverSpec{
	// the default configurations again with a longer budget (a loaded machine), then variations
	{"z3-5.1.0", func(f string, t int) []string { return []string{"z3-new", fmt.Sprintf("-T:%d", t+15), f} }},
	{"z3-4.8.12", func(f string, t int) []string { return []string{"z3", fmt.Sprintf("-T:%d", t+15), f} }},
	{"z3-5.1.0 auto_config=false", func(f string, t int) []string {
		return []string{"z3-new", fmt.Sprintf("-T:%d", t), "auto_config=false", f}
	}},
	{"z3-4.8.12 seed=1", func(f string, t int) []string {
		return []string{"z3", fmt.Sprintf("-T:%d", t), "smt.random_seed=1", f}
	}},
	{"z3-5.1.0 seed=1", func(f string, t int) []string {
		return []string{"z3-new", fmt.Sprintf("-T:%d", t), "smt.random_seed=1", f}
	}},
	{"cvc5-1.0", func(f string, t int) []string { return []string{"cvc5", fmt.Sprintf("--tlimit=%d", t*1000), f} }},
}

func runSolver(s solverSpec, file string, timeoutS int) (status string, out string, ms int64) {
	ctx, cancel := context.WithTimeout(context.Background(), time.Duration(timeoutS+20)*time.Second)
	defer cancel()
	argv := s.argv(file, timeoutS)
	if seed := os.Getenv("GOVC_SEED"); seed != "" && strings.HasPrefix(argv[0], "z3") {
		// stability experiments: perturb the solver's heuristics
		argv = append(argv[:len(argv)-1], "smt.random_seed="+seed, "sat.random_seed="+seed, argv[len(argv)-1])
	}
	cmd := exec.CommandContext(ctx, argv[0], argv[1:]...)
	var buf bytes.Buffer
	cmd.Stdout = &buf
	cmd.Stderr = &buf
	t0 := time.Now()
	_ = cmd.Run()
	ms = time.Since(t0).Milliseconds()
	out = buf.String()
	// the verdict is the first line that is one (solvers print warnings before it)
	first := ""
	for _, l := range strings.Split(out, "\n") {
		l = strings.TrimSpace(l)
		if l == "unsat" || l == "sat" || l == "unknown" || l == "timeout" {
			first = l
			break
		}
		if l == "" || strings.HasPrefix(l, "WARNING") || strings.HasPrefix(l, "(warning") || strings.HasPrefix(l, ";") {
			continue
		}
		break
	}
	switch first {
	case "unsat", "sat", "unknown":
		status = first
	case "timeout":
		status = "timeout"
	default:
		if ctx.Err() != nil {
			status = "timeout"
		} else if strings.Contains(out, "timeout") || strings.Contains(out, "interrupted") {
			status = "timeout"
		} else {
			status = "error"
		}
	}
	return
}

type dischargeOpts struct {
	timeoutS int
	allAgree bool // thorough: every solver that answers must agree
	scratch  string
	parallel int
	retry    bool // second attempt: every solver gets the full budget
}

// discharge decides one obligation.
func discharge(o *Obligation, idx int, opt dischargeOpts) {
	if o.Trivial {
		return
	}
	q := o.Query(false)
	file := filepath.Join(opt.scratch, fmt.Sprintf("q%05d.smt2", idx))
	if err := os.WriteFile(file, []byte(q), 0644); err != nil {
		o.Status = "error"
		o.RawOut = err.Error()
		return
	}
	want := "unsat"
	if o.Cover {
		want = "sat"
	}
	var answers []string
	var total int64
	try := func(s solverSpec, t int) (string, string) {
		st, out, ms := runSolver(s, file, t)
		total += ms
		answers = append(answers, s.name+":"+st)
		return st, out
	}
	decided := false
	if o.Cover {
		// vacuity guard: only a proof of unsatisfiability is a failure; bounded effort
		t := 2
		if opt.allAgree {
			t = 10
		}
		for _, s := range solvers[:1+b2i(opt.allAgree)*2] {
			st, out := try(s, t)
			if !decided || st == "unsat" {
				o.Status, o.Solver, o.RawOut = st, s.name, out
				decided = true
			}
			if st == "unsat" {
				break
			}
		}
		o.TimeMs = total
		o.RawOut = strings.Join(answers, " ") + "\n" + truncate(o.RawOut, 500)
		os.Remove(file)
		return
	}
	list := solvers
	if opt.retry {
		// second attempt: a portfolio of configurations and seeds (quantifier instantiation is heuristic: an
		// obligation that diverges under one configuration is often immediate under another)
		list = retryPortfolio
	}
	for i, s := range list {
		t := opt.timeoutS
		if i == 0 && !opt.allAgree && !opt.retry && t > 3 {
			t = 3 // first attempt short; the others get the full budget
		}
		if opt.retry && !opt.allAgree {
			t = 10
			if i == len(list)-1 {
				t = 15
			}
		}
		st, out := try(s, t)
		if st == "unsat" || st == "sat" {
			if !decided {
				o.Status, o.Solver, o.RawOut = st, s.name, out
				decided = true
			} else if st != o.Status {
				o.Status = "disagree"
				o.RawOut += "\n" + s.name + ": " + st
			}
			if !opt.allAgree {
				break
			}
		} else if !decided && !(st == "error" && (o.Status == "timeout" || o.Status == "unknown")) {
			// a solver that cannot read the query (cvc5 and constant arrays over non-values) does not replace
			// "undecided within the budget" as the reason
			o.Status, o.Solver, o.RawOut = st, s.name, out
		}
	}
	o.TimeMs = total
	o.RawOut = strings.Join(answers, " ") + "\n" + truncate(o.RawOut, 2000)
	_ = want
	if o.Status == "unsat" || (o.Cover && o.Status != "unsat") {
		os.Remove(file)
	}
}

func truncate(s string, n int) string {
	if len(s) > n {
		return s[:n] + "..."
	}
	return s
}

func dischargeAll(obls []*Obligation, opt dischargeOpts) {
	var wg sync.WaitGroup
	sem := make(chan struct{}, opt.parallel)
	for i, o := range obls {
		wg.Add(1)
		sem <- struct{}{}
		go func(i int, o *Obligation) {
			defer wg.Done()
			defer func() { <-sem }()
			discharge(o, i, opt)
		}(i, o)
	}
	wg.Wait()
	// second chance for obligations nobody decided (a loaded machine turns easy queries into timeouts): a few at
	// a time, with a long budget; only what is still undecided afterwards is reported
	var again []int
	for i, o := range obls {
		if !o.Trivial && !o.Cover && o.Status != "unsat" && o.Status != "sat" && o.Status != "disagree" {
			again = append(again, i)
		}
	}
	if len(again) == 0 {
		return
	}
	if len(again) > 24 && !opt.allAgree {
		// many undecided obligations: the tree is broken in earnest; a second attempt at the first two dozen is
		// enough to tell flakiness from failure
		again = again[:24]
	}
	opt2 := opt
	opt2.retry = true
	if opt2.timeoutS < 30 {
		opt2.timeoutS = 30
	}
	sem2 := make(chan struct{}, 4)
	for _, i := range again {
		wg.Add(1)
		sem2 <- struct{}{}
		go func(i int, o *Obligation) {
			defer wg.Done()
			defer func() { <-sem2 }()
			first := o.RawOut
			t0 := o.TimeMs
			discharge(o, i, opt2)
			o.TimeMs += t0
			o.RawOut = "first attempt: " + strings.SplitN(first, "\n", 2)[0] + "\nretry: " + o.RawOut
		}(i, obls[i])
	}
	wg.Wait()
}

// ok reports whether the obligation is settled in the good direction.
func (o *Obligation) OK() bool {
	if o.Cover {
		return o.Status != "unsat" // sat or unknown: not vacuous
	}
	return o.Status == "unsat"
}

// getModel re-runs a failed obligation asking for values of the given terms.
func getModelValues(o *Obligation, terms []string, scratch string, timeoutS int) (map[string]string, string) {
	if len(terms) == 0 {
		return nil, ""
	}
	q := o.Query(true)
	q += "(get-value (" + strings.Join(terms, " ") + "))\n"
	file := filepath.Join(scratch, "model_"+sanitize(o.Name)+".smt2")
	os.WriteFile(file, []byte(q), 0644)
	defer os.Remove(file)
	for _, s := range solvers[:3] {
		st, out, _ := runSolver(s, file, timeoutS)
		if st != "sat" {
			continue
		}
		rest := strings.SplitN(out, "\n", 2)
		if len(rest) < 2 {
			continue
		}
		vals := parseGetValue(rest[1])
		if len(vals) == len(terms) {
			m := map[string]string{}
			for i, t := range terms {
				m[t] = vals[i]
			}
			return m, out
		}
	}
	return nil, ""
}

// parseGetValue parses "((t1 v1) (t2 v2) ...)" returning the values in order.
func parseGetValue(s string) []string {
	s = strings.TrimSpace(s)
	if !strings.HasPrefix(s, "(") {
		return nil
	}
	j := matchParen(s)
	if j < 0 {
		return nil
	}
	inner := s[1:j]
	var out []string
	for _, pair := range splitSexp(inner) {
		if !strings.HasPrefix(pair, "(") {
			continue
		}
		parts := splitSexp(pair[1 : len(pair)-1])
		if len(parts) >= 2 {
			out = append(out, parts[len(parts)-1])
		}
	}
	return out
}

func b2i(b bool) int {
	if b {
		return 1
	}
	return 0
}
