package main

// Symbolic execution of statements.

import (
	"go/ast"
	"go/token"
	"go/types"
	"math"
	"strconv"
	"strings"
)

func f32bits(f float32) uint32 { return math.Float32bits(f) }
func f64bits(f float64) uint64 { return math.Float64bits(f) }

// assign stores v into the location denoted by lhs.
func (fc *FuncCtx) assign(st *State, lhs ast.Expr, v Term) {
	switch x := lhs.(type) {
	case *ast.ParenExpr:
		fc.assign(st, x.X, v)
	case *ast.Ident:
		if x.Name == "_" {
			return
		}
		obj := fc.info.ObjectOf(x)
		vr, ok := obj.(*types.Var)
		if !ok {
			fc.fail(lhs, "assignment to non-variable")
		}
		if a, ok := st.alias[vr]; ok {
			fc.assign(st, a, v)
			return
		}
		v = fc.convertImplicit(st, v, vr.Type())
		st.vars[vr] = fc.compact(Term{S: v.S, T: vr.Type(), Const: v.Const, Static: v.Static})
	case *ast.SelectorExpr:
		if id, ok := x.X.(*ast.Ident); ok {
			if _, isPkg := fc.info.ObjectOf(id).(*types.PkgName); isPkg {
				obj := fc.info.ObjectOf(x.Sel).(*types.Var)
				st.vars[obj] = Term{S: v.S, T: obj.Type()}
				return
			}
		}
		sel := fc.info.Selections[x]
		if sel == nil || sel.Kind() != types.FieldVal {
			fc.fail(lhs, "unsupported assignment target")
		}
		base := fc.eval(st, x.X)
		v = fc.convertImplicit(st, v, sel.Type())
		nb := fc.updatePath(st, base, sel.Index(), v, x)
		fc.assignValueOrPointee(st, x.X, base, nb)
	case *ast.IndexExpr:
		base := fc.eval(st, x.X)
		if _, ok := base.T.Underlying().(*types.Pointer); ok {
			fc.fail(lhs, "assignment through pointer to array")
		}
		switch u := base.T.Underlying().(type) {
		case *types.Slice:
			i := fc.eval(st, x.Index)
			sort, arr, off, ln, cp := fc.reg().sliceParts(base)
			_ = sort
			fc.oblige(st, "panic.index", "", "(and (<= 0 "+i.S+") (< "+i.S+" "+ln+"))", x, "index "+exprStr(x.Index)+" within "+exprStr(x.X))
			v = fc.convertImplicit(st, v, u.Elem())
			nb := fc.reg().mkSlice(base.T, "(store "+arr+" (+ "+off+" "+i.S+") "+v.S+")", off, ln, cp)
			fc.assign(st, x.X, nb)
		case *types.Array:
			i := fc.eval(st, x.Index)
			fc.oblige(st, "panic.index", "", "(and (<= 0 "+i.S+") (< "+i.S+" "+strconv.FormatInt(u.Len(), 10)+"))", x, "index within array")
			v = fc.convertImplicit(st, v, u.Elem())
			fc.assign(st, x.X, Term{S: "(store " + base.S + " " + i.S + " " + v.S + ")", T: base.T})
		case *types.Map:
			k := fc.eval(st, x.Index)
			if isInterface(u.Key()) && !isInterface(k.T) {
				k = fc.toInterface(st, k, u.Key())
			}
			s := fc.reg().SortOf(base.T)
			fc.oblige(st, "panic.nilmap", "", not("(isnil_"+s+" "+base.S+")"), x, "assignment to entry in possibly nil map "+exprStr(x.X))
			fc.lockCheck(st, x.X, "W", x)
			v = fc.convertImplicit(st, v, u.Elem())
			dom, val, size := "(dom_"+s+" "+base.S+")", "(val_"+s+" "+base.S+")", "(size_"+s+" "+base.S+")"
			nsize := ite("(select "+dom+" "+k.S+")", size, "(+ "+size+" 1)")
			nb := Term{S: "(mk_" + s + " false (store " + dom + " " + k.S + " true) (store " + val + " " + k.S + " " + v.S + ") " + nsize + ")", T: base.T}
			fc.assign(st, x.X, nb)
		default:
			fc.fail(lhs, "unsupported indexed assignment")
		}
	case *ast.StarExpr:
		p := fc.eval(st, x.X)
		fc.oblige(st, "panic.nilptr", "", not(fc.reg().isNil(p)), lhs, "store through possibly nil pointer")
		pt := p.T.Underlying().(*types.Pointer)
		v = fc.convertImplicit(st, v, pt.Elem())
		fc.assign(st, x.X, fc.reg().ref(v, p.T))
	default:
		fc.fail(lhs, "unsupported assignment target %T", lhs)
	}
}

// updatePath returns base (struct or pointer to struct) with the field path replaced.
func (fc *FuncCtx) updatePath(st *State, base Term, idx []int, v Term, n ast.Node) Term {
	if len(idx) == 0 {
		return Term{S: v.S, T: base.T}
	}
	if _, ok := base.T.Underlying().(*types.Pointer); ok {
		inner := fc.derefChecked(st, base, n, "assignment target")
		ni := fc.updatePath(st, inner, idx, v, n)
		return fc.reg().ref(ni, base.T)
	}
	stt := base.T.Underlying().(*types.Struct)
	f := stt.Field(idx[0])
	cur, ok := fc.reg().fieldOf(base, f.Name())
	if !ok {
		// a write to a field of a library struct that no contract models is not recorded (reads of it are unknown)
		if si := fc.reg().StructInfo(base.T); si != nil && si.Opaque {
			return base
		}
		fc.fail(n, "field %s not modelled", f.Name())
	}
	nv := fc.updatePath(st, cur, idx[1:], v, n)
	return fc.reg().withField(base, f.Name(), nv.S)
}

// assignValueOrPointee writes the updated base value back to where it came from.
func (fc *FuncCtx) assignValueOrPointee(st *State, baseExpr ast.Expr, old, nb Term) {
	if !fc.addressable(baseExpr) {
		return // write to a temporary: no observable effect
	}
	fc.assign(st, baseExpr, nb)
}

func (fc *FuncCtx) addressable(e ast.Expr) bool {
	switch x := e.(type) {
	case *ast.Ident:
		return true
	case *ast.ParenExpr:
		return fc.addressable(x.X)
	case *ast.SelectorExpr:
		if id, ok := x.X.(*ast.Ident); ok {
			if _, isPkg := fc.info.ObjectOf(id).(*types.PkgName); isPkg {
				return true
			}
		}
		return fc.addressable(x.X)
	case *ast.IndexExpr:
		return fc.addressable(x.X)
	case *ast.StarExpr:
		return fc.addressable(x.X)
	}
	return false
}

func (fc *FuncCtx) execBlock(st *State, list []ast.Stmt) *State {
	for _, s := range list {
		if st.dead {
			return st
		}
		st = fc.exec(st, s)
	}
	return st
}

func deadState() *State {
	return &State{guard: "false", vars: map[types.Object]Term{}, alias: map[types.Object]ast.Expr{}, ghost: map[string]Term{}, dead: true, held: map[string]string{}}
}

func (fc *FuncCtx) exec(st *State, s ast.Stmt) *State {
	switch x := s.(type) {
	case *ast.BlockStmt:
		return fc.execBlock(st, x.List)
	case *ast.EmptyStmt:
		return st
	case *ast.ExprStmt:
		if call, ok := x.X.(*ast.CallExpr); ok {
			if id, ok := call.Fun.(*ast.Ident); ok && id.Name == "panic" {
				if _, isB := fc.info.ObjectOf(id).(*types.Builtin); isB {
					fc.oblige(st, "panic.explicit", "", "false", x, "explicit panic reachable")
					return deadState()
				}
			}
			if fn, _ := fc.calleeOf(call); fn != nil && fc.w.NoReturn[fn.FullName()] {
				for _, a := range call.Args {
					fc.eval(st, a)
				}
				return deadState()
			}
			fc.evalCall(st, call)
			return st
		}
		fc.eval(st, x.X)
		return st
	case *ast.DeclStmt:
		gd := x.Decl.(*ast.GenDecl)
		if gd.Tok != token.VAR {
			return st
		}
		for _, sp := range gd.Specs {
			vs := sp.(*ast.ValueSpec)
			if len(vs.Values) == 0 {
				for _, n := range vs.Names {
					if n.Name == "_" {
						continue
					}
					obj := fc.info.Defs[n].(*types.Var)
					st.vars[obj] = fc.reg().Zero(obj.Type())
				}
				continue
			}
			fc.execAssign(st, identsToExprs(vs.Names), vs.Values, true, x)
		}
		return st
	case *ast.AssignStmt:
		switch x.Tok {
		case token.ASSIGN, token.DEFINE:
			fc.execAssign(st, x.Lhs, x.Rhs, x.Tok == token.DEFINE, x)
		default:
			// op=
			op := map[token.Token]token.Token{token.ADD_ASSIGN: token.ADD, token.SUB_ASSIGN: token.SUB, token.MUL_ASSIGN: token.MUL, token.QUO_ASSIGN: token.QUO, token.REM_ASSIGN: token.REM,
				token.AND_ASSIGN: token.AND, token.OR_ASSIGN: token.OR, token.XOR_ASSIGN: token.XOR, token.SHL_ASSIGN: token.SHL, token.SHR_ASSIGN: token.SHR, token.AND_NOT_ASSIGN: token.AND_NOT}[x.Tok]
			a := fc.eval(st, x.Lhs[0])
			b := fc.eval(st, x.Rhs[0])
			r := fc.binop(st, op, a, b, a.T, x)
			fc.assign(st, x.Lhs[0], r)
		}
		return st
	case *ast.IncDecStmt:
		a := fc.eval(st, x.X)
		op := "+"
		if x.Tok == token.DEC {
			op = "-"
		}
		fc.assign(st, x.X, Term{S: wrapInt("("+op+" "+a.S+" 1)", a.T, true), T: a.T})
		return st
	case *ast.IfStmt:
		if x.Init != nil {
			st = fc.exec(st, x.Init)
		}
		c := fc.eval(st, x.Cond)
		th := st.clone()
		cs := fc.compactBool(c.S)
		th.guard = and(st.guard, cs)
		el := st.clone()
		el.guard = and(st.guard, not(cs))
		th = fc.exec(th, x.Body)
		if x.Else != nil {
			el = fc.exec(el, x.Else)
		}
		return fc.merge([]*State{th, el})
	case *ast.ForStmt:
		return fc.execFor(st, x, "")
	case *ast.RangeStmt:
		return fc.execRange(st, x, "")
	case *ast.LabeledStmt:
		switch b := x.Stmt.(type) {
		case *ast.ForStmt:
			return fc.execFor(st, b, x.Label.Name)
		case *ast.RangeStmt:
			return fc.execRange(st, b, x.Label.Name)
		case *ast.SwitchStmt:
			return fc.execSwitch(st, b, x.Label.Name)
		case *ast.SelectStmt:
			return fc.execSelect(st, b, x.Label.Name)
		}
		return fc.exec(st, x.Stmt)
	case *ast.SwitchStmt:
		return fc.execSwitch(st, x, "")
	case *ast.TypeSwitchStmt:
		return fc.execTypeSwitch(st, x, "")
	case *ast.SelectStmt:
		return fc.execSelect(st, x, "")
	case *ast.ReturnStmt:
		fc.execReturn(st, x)
		return deadState()
	case *ast.BranchStmt:
		label := ""
		if x.Label != nil {
			label = x.Label.Name
		}
		for i := len(fc.breakTargets) - 1; i >= 0; i-- {
			t := fc.breakTargets[i]
			if x.Tok == token.CONTINUE && !t.isLoop {
				continue
			}
			if label != "" && t.label != label {
				continue
			}
			if x.Tok == token.BREAK {
				t.breaks = append(t.breaks, st)
			} else if x.Tok == token.CONTINUE {
				t.continues = append(t.continues, st)
			} else {
				fc.fail(x, "unsupported branch %s", x.Tok)
			}
			return deadState()
		}
		fc.fail(x, "branch target not found")
	case *ast.DeferStmt:
		fc.deferred = append(fc.deferred, &ast.ExprStmt{X: x.Call})
		return st
	case *ast.GoStmt:
		// arguments are evaluated now; the goroutine body is not part of this function's proof.
		// Starting a repository function that has a contract obliges its precondition here.
		if fn, _ := fc.calleeOf(x.Call); fn != nil && fc.w.Contracts[fn.FullName()] != nil && fc.w.FuncDecls[fn.FullName()] != nil {
			sub := st.clone()
			fc.goMode = true
			fc.evalCall(sub, x.Call)
			fc.goMode = false
			return st
		}
		for _, a := range x.Call.Args {
			fc.eval(st, a)
		}
		return st
	case *ast.SendStmt:
		fc.eval(st, x.Chan)
		v := fc.eval(st, x.Value)
		if ct, ok := fc.typeOf(x.Chan).Underlying().(*types.Chan); ok {
			v = fc.convertImplicit(st, v, ct.Elem())
		}
		if nb := fc.nonblockingOpt(); nb != "" {
			key := fc.globalKey(x.Chan)
			if key == "" && strings.Contains(" "+nb+" ", " * ") {
				key = types.ExprString(x.Chan)
			}
			if key != "" {
				name := key[strings.LastIndex(key, ".")+1:]
				for _, want := range strings.Fields(nb) {
					if want == name || want == "*" {
						fc.oblige(st, "chan.nonblocking", name, strconv.FormatBool(fc.inNonBlocking), x, "the send on "+name+" must not block this function: it has to be a case of a select with a default clause")
					}
				}
			}
		}
		fc.chanSend(st, x.Chan, v, x)
		fc.ownSend(st, x.Value, x)
		fc.ghostSend(st, x)
		return st
	}
	fc.fail(s, "unsupported statement %T", s)
	return st
}

func identsToExprs(ids []*ast.Ident) []ast.Expr {
	var out []ast.Expr
	for _, i := range ids {
		out = append(out, i)
	}
	return out
}

func (fc *FuncCtx) execAssign(st *State, lhs, rhs []ast.Expr, define bool, n ast.Node) {
	var vals []Term
	if len(rhs) == 1 && len(lhs) > 1 {
		fc.pendingAlias = nil
		vals = fc.evalMulti(st, rhs[0], len(lhs))
		for _, pa := range fc.pendingAlias {
			if pa.call != unparen(rhs[0]) || pa.result >= len(lhs) {
				continue
			}
			if id, ok := lhs[pa.result].(*ast.Ident); ok && id.Name != "_" {
				if obj, ok := fc.info.ObjectOf(id).(*types.Var); ok && fc.isLocal(obj) {
					if _, isPtr := obj.Type().Underlying().(*types.Pointer); isPtr {
						st.alias[obj] = fc.elementAlias(st, pa.base, pa.idx)
						delete(st.vars, obj)
						vals[pa.result] = Term{S: "", T: nil}
					}
				}
			}
		}
		fc.pendingAlias = nil
	} else {
		for i, r := range rhs {
			// pointer alias: r := d.reader
			if define || true {
				if id, ok := lhs[i].(*ast.Ident); ok && id.Name != "_" {
					if obj, ok := fc.info.ObjectOf(id).(*types.Var); ok && fc.isLocal(obj) {
						if _, isPtr := obj.Type().Underlying().(*types.Pointer); isPtr && fc.isPathExpr(r) && !fc.isSelfRef(r, obj) {
							fc.eval(st, r) // obligations
							st.alias[obj] = r
							delete(st.vars, obj)
							vals = append(vals, Term{S: "", T: nil})
							continue
						}
						delete(st.alias, obj)
					}
				}
			}
			vals = append(vals, fc.eval(st, r))
		}
	}
	if fc.ownOn() {
		if len(rhs) == 1 && len(lhs) > 1 {
			fc.ownAssign(st, lhs[0], fc.regionOf(st, rhs[0]))
			for _, l := range lhs[1:] {
				fc.ownAssign(st, l, region{})
			}
		} else {
			var rs []region
			for _, r := range rhs {
				rs = append(rs, fc.regionOf(st, r))
			}
			for i, l := range lhs {
				if i < len(rs) {
					fc.ownAssign(st, l, rs[i])
					fc.ownAssignLit(st, l, rhs[i])
				}
			}
		}
	}
	for i, l := range lhs {
		if vals[i].T == nil && vals[i].S == "" {
			continue
		}
		if define {
			if id, ok := l.(*ast.Ident); ok && id.Name != "_" {
				if obj, ok := fc.info.Defs[id].(*types.Var); ok {
					v := fc.convertImplicit(st, vals[i], obj.Type())
					st.vars[obj] = fc.compact(Term{S: v.S, T: obj.Type(), Const: v.Const, Static: v.Static})
					continue
				}
			}
		}
		fc.assign(st, l, vals[i])
	}
}

func (fc *FuncCtx) isLocal(obj *types.Var) bool {
	if obj.IsField() {
		return false
	}
	if obj.Pkg() == nil {
		return true
	}
	return obj.Pkg().Scope().Lookup(obj.Name()) != obj
}

// isPathExpr: identifiers and field selections only, of pointer type, rooted at a variable.
func (fc *FuncCtx) isPathExpr(e ast.Expr) bool {
	switch x := e.(type) {
	case *ast.Ident:
		_, ok := fc.info.ObjectOf(x).(*types.Var)
		return ok
	case *ast.SelectorExpr:
		if sel := fc.info.Selections[x]; sel != nil && sel.Kind() == types.FieldVal {
			return fc.isPathExpr(x.X)
		}
	case *ast.ParenExpr:
		return fc.isPathExpr(x.X)
	}
	return false
}

func (fc *FuncCtx) isSelfRef(e ast.Expr, obj *types.Var) bool {
	found := false
	ast.Inspect(e, func(n ast.Node) bool {
		if id, ok := n.(*ast.Ident); ok && fc.info.ObjectOf(id) == obj {
			found = true
		}
		return true
	})
	return found
}

// evalMulti evaluates a multi-valued expression (call, comma-ok forms).
func (fc *FuncCtx) evalMulti(st *State, e ast.Expr, n int) []Term {
	switch x := e.(type) {
	case *ast.ParenExpr:
		return fc.evalMulti(st, x.X, n)
	case *ast.CallExpr:
		rs := fc.evalCall(st, x)
		if len(rs) != n {
			fc.fail(e, "expected %d results, got %d", n, len(rs))
		}
		return rs
	case *ast.IndexExpr:
		return fc.evalIndex(st, x, true)
	case *ast.TypeAssertExpr:
		return fc.evalTypeAssert(st, x, true)
	case *ast.UnaryExpr:
		if x.Op == token.ARROW {
			okb := fc.freshBool("recvok")
			v := fc.chanRecvOK(st, x, okb)
			return []Term{v, {S: okb, T: tBool}}
		}
	}
	fc.fail(e, "unsupported multi-value expression")
	return nil
}

func (fc *FuncCtx) execReturn(st *State, x *ast.ReturnStmt) {
	var vals []Term
	if len(x.Results) == 0 {
		for _, rv := range fc.resultVars {
			v, ok := st.vars[rv]
			if !ok {
				v = fc.reg().Zero(rv.Type())
			}
			vals = append(vals, v)
		}
	} else if len(x.Results) == 1 && len(fc.resultVars) > 1 {
		vals = fc.evalMulti(st, x.Results[0], len(fc.resultVars))
	} else {
		for i, r := range x.Results {
			vals = append(vals, fc.evalAs(st, r, fc.resultVars[i].Type()))
		}
	}
	// named results are assigned (visible to deferred calls and to the contract)
	for i, rv := range fc.resultVars {
		st.vars[rv] = Term{S: vals[i].S, T: rv.Type(), Const: vals[i].Const}
	}
	for i := len(fc.deferred) - 1; i >= 0; i-- {
		st = fc.exec(st, fc.deferred[i])
	}
	for i, rv := range fc.resultVars {
		if fc.namedResults {
			vals[i] = st.vars[rv]
		}
	}
	if fc.contract != nil && fc.contract.Opts["constructor"] != "" && len(fc.inlineStack) == 0 {
		// a constructor hands out a fresh object: ghost fields defined from another field (`ghost field T.g = f`)
		// take their value from that field now, however the object was put together
		for i, v := range vals {
			pt, ok := v.T.Underlying().(*types.Pointer)
			if !ok {
				continue
			}
			si := fc.reg().StructInfo(pt.Elem())
			if si == nil {
				continue
			}
			inner := fc.reg().deref(v)
			changed := false
			for _, f := range si.Fields {
				if f.Ghost && f.Init != "" {
					if src, ok := fc.reg().fieldOf(inner, f.Init); ok {
						inner = fc.compact(fc.reg().withField(inner, f.Name, src.S))
						changed = true
					}
				}
			}
			if changed {
				// only a non-nil result is an object
				vals[i] = Term{S: ite(fc.reg().isNil(v), v.S, fc.reg().ref(inner, v.T).S), T: v.T}
			}
		}
	}
	fc.returns = append(fc.returns, st)
	fc.retVals = append(fc.retVals, vals)
	if len(fc.inlineStack) > 0 {
		// a function executed in place: its results travel in the state, the caller goes on
		for i, rv := range fc.resultVars {
			st.vars[rv] = Term{S: vals[i].S, T: rv.Type(), Const: vals[i].Const}
		}
		return
	}
	fc.checkPost(st, vals, x)
}

func (fc *FuncCtx) execSwitch(st *State, x *ast.SwitchStmt, label string) *State {
	if x.Init != nil {
		st = fc.exec(st, x.Init)
	}
	var tag *Term
	if x.Tag != nil {
		t := fc.eval(st, x.Tag)
		tag = &t
	}
	tgt := &jumpTarget{label: label}
	fc.breakTargets = append(fc.breakTargets, tgt)
	var outs []*State
	prev := "false" // some earlier case matched
	var defaultClause *ast.CaseClause
	for _, c := range x.Body.List {
		cc := c.(*ast.CaseClause)
		if cc.List == nil {
			defaultClause = cc
			continue
		}
		var conds []string
		for _, e := range cc.List {
			v := fc.eval(st, e)
			if tag != nil {
				conds = append(conds, fc.equalTerms(st, *tag, v, e))
			} else {
				conds = append(conds, v.S)
			}
		}
		cond := or(conds...)
		b := st.clone()
		b.guard = and(st.guard, not(prev), cond)
		prev = or(prev, cond)
		if b.guard == "false" {
			continue // statically excluded (constant tag and case values)
		}
		for _, s := range cc.Body {
			if br, ok := s.(*ast.BranchStmt); ok && br.Tok == token.FALLTHROUGH {
				fc.fail(s, "fallthrough not supported")
			}
		}
		outs = append(outs, fc.execBlock(b, cc.Body))
	}
	d := st.clone()
	d.guard = and(st.guard, not(prev))
	if defaultClause != nil {
		d = fc.execBlock(d, defaultClause.Body)
	}
	outs = append(outs, d)
	fc.breakTargets = fc.breakTargets[:len(fc.breakTargets)-1]
	outs = append(outs, tgt.breaks...)
	return fc.merge(outs)
}

func (fc *FuncCtx) execTypeSwitch(st *State, x *ast.TypeSwitchStmt, label string) *State {
	if x.Init != nil {
		st = fc.exec(st, x.Init)
	}
	var subject ast.Expr
	switch a := x.Assign.(type) {
	case *ast.ExprStmt:
		subject = a.X.(*ast.TypeAssertExpr).X
	case *ast.AssignStmt:
		subject = a.Rhs[0].(*ast.TypeAssertExpr).X
	}
	v := fc.eval(st, subject)
	tgt := &jumpTarget{label: label}
	fc.breakTargets = append(fc.breakTargets, tgt)
	var outs []*State
	prev := "false"
	var defaultClause *ast.CaseClause
	for _, c := range x.Body.List {
		cc := c.(*ast.CaseClause)
		if cc.List == nil {
			defaultClause = cc
			continue
		}
		var conds []string
		var val Term
		for _, e := range cc.List {
			if id, ok := e.(*ast.Ident); ok && id.Name == "nil" {
				conds = append(conds, fc.reg().isNil(v))
				val = v
				continue
			}
			ok, ex := fc.typeMatch(st, v, fc.typeOf(e))
			conds = append(conds, ok)
			val = ex
		}
		cond := or(conds...)
		b := st.clone()
		b.guard = and(st.guard, not(prev), cond)
		prev = or(prev, cond)
		if b.guard == "false" {
			continue // statically excluded (constant tag and case values)
		}
		if obj, ok := fc.info.Implicits[cc].(*types.Var); ok {
			if len(cc.List) == 1 {
				b.vars[obj] = Term{S: val.S, T: obj.Type()}
			} else {
				b.vars[obj] = Term{S: v.S, T: obj.Type()}
			}
		}
		outs = append(outs, fc.execBlock(b, cc.Body))
	}
	d := st.clone()
	d.guard = and(st.guard, not(prev))
	if defaultClause != nil {
		if obj, ok := fc.info.Implicits[defaultClause].(*types.Var); ok {
			d.vars[obj] = Term{S: v.S, T: obj.Type()}
		}
		d = fc.execBlock(d, defaultClause.Body)
	}
	outs = append(outs, d)
	fc.breakTargets = fc.breakTargets[:len(fc.breakTargets)-1]
	outs = append(outs, tgt.breaks...)
	return fc.merge(outs)
}

func (fc *FuncCtx) execSelect(st *State, x *ast.SelectStmt, label string) *State {
	tgt := &jumpTarget{label: label}
	fc.breakTargets = append(fc.breakTargets, tgt)
	choice := fc.fresh("select", tInt)
	var outs []*State
	n := len(x.Body.List)
	// `select { case ch <- v: ... default: ... }` on a package-level channel: the send happens exactly when the
	// channel has room; the ghost full_<channel> says which (contracts can speak about "the queue was not full")
	fullName := ""
	if n == 2 {
		c0, c1 := x.Body.List[0].(*ast.CommClause), x.Body.List[1].(*ast.CommClause)
		if c0.Comm == nil {
			c0, c1 = c1, c0
		}
		if ss, ok := c0.Comm.(*ast.SendStmt); ok && c1.Comm == nil {
			if key := fc.globalKey(ss.Chan); key != "" {
				fullName = "full_" + key[strings.LastIndex(key, ".")+1:]
				full := fc.freshBool(fullName)
				st.ghost[fullName] = mkBool(full)
			}
		}
	}
	for i, c := range x.Body.List {
		cc := c.(*ast.CommClause)
		b := st.clone()
		if fullName != "" {
			if cc.Comm == nil {
				b.guard = and(st.guard, st.ghost[fullName].S)
			} else {
				b.guard = and(st.guard, not(st.ghost[fullName].S))
			}
		} else if i == n-1 {
			b.guard = and(st.guard, "(>= "+choice.S+" "+strconv.Itoa(i)+")")
		} else if i == 0 {
			b.guard = and(st.guard, "(<= "+choice.S+" 0)")
		} else {
			b.guard = and(st.guard, eq(choice.S, strconv.Itoa(i)))
		}
		fc.ghostEvent(b, "select", i, cc)
		if cc.Comm != nil {
			hasDefault := false
			for _, c2 := range x.Body.List {
				if c2.(*ast.CommClause).Comm == nil {
					hasDefault = true
				}
			}
			saved := fc.inNonBlocking
			fc.inNonBlocking = hasDefault
			b = fc.exec(b, cc.Comm)
			fc.inNonBlocking = saved
		}
		outs = append(outs, fc.execBlock(b, cc.Body))
	}
	fc.breakTargets = fc.breakTargets[:len(fc.breakTargets)-1]
	outs = append(outs, tgt.breaks...)
	return fc.merge(outs)
}

// ghostEvent counts select statements that offer a send (an attempt to publish), per channel.
func (fc *FuncCtx) ghostEvent(st *State, kind string, i int, n ast.Node) {
	cc, ok := n.(*ast.CommClause)
	if !ok || i != 0 {
		return
	}
	_ = cc
}

// ghostSend counts the sends per global channel: ghost variable sends_<channel>.
func (fc *FuncCtx) ghostSend(st *State, n *ast.SendStmt) {
	// `opt countsends <Method>`: sends on the channel returned by a call of that method
	if fc.contract != nil {
		if ce, ok := unparen(n.Chan).(*ast.CallExpr); ok {
			if se, ok := unparen(ce.Fun).(*ast.SelectorExpr); ok {
				for _, want := range strings.Fields(fc.contract.Opts["countsends"]) {
					if se.Sel.Name == want {
						name := "sends_" + want
						cur := st.ghost[name]
						st.ghost[name] = mkMath("(+ " + cur.S + " 1)")
						saved := fc.quiet
						fc.quiet = true
						st.ghost["lastsent_"+want] = fc.eval(st, n.Value)
						fc.quiet = saved
					}
				}
			}
		}
	}
	if key := fc.globalKey(n.Chan); key != "" {
		name := "sends_" + key[strings.LastIndex(key, ".")+1:]
		cur, ok := st.ghost[name]
		if !ok {
			cur = fc.fresh(name, tInt)
			fc.oldState.ghost[name] = cur
		}
		st.ghost[name] = mkMath("(+ " + cur.S + " 1)")
	} else if id, ok := unparen(n.Chan).(*ast.Ident); ok {
		if v, ok := fc.info.ObjectOf(id).(*types.Var); ok && fc.isLocal(v) {
			name := "sends_" + id.Name
			if cur, ok := st.ghost[name]; ok {
				st.ghost[name] = mkMath("(+ " + cur.S + " 1)")
				saved := fc.quiet
				fc.quiet = true
				st.ghost["lastsent_"+id.Name] = fc.eval(st, n.Value)
				fc.quiet = saved
			}
		}
	}
}
