package main

// Replay of solver counterexamples against the real code with `go test -overlay`.

import (
	"bufio"
	"bytes"
	"encoding/json"
	"fmt"
	"go/types"
	"io"
	"math/big"
	"os"
	"os/exec"
	"path/filepath"
	"strconv"
	"strings"
	"time"
)

// ---- interactive solver session -------------------------------------------------------------

type smtSession struct {
	cmd *exec.Cmd
	in  io.WriteCloser
	out *bufio.Reader
}

func startSession(query string) (*smtSession, string, error) {
	return startSessionWith(query, "z3-new", "-in", "-T:60")
}

// startSessionWith starts a model session with the given solver command line.
func startSessionWith(query string, argv ...string) (*smtSession, string, error) {
	cmd := exec.Command(argv[0], argv[1:]...)
	in, _ := cmd.StdinPipe()
	outp, _ := cmd.StdoutPipe()
	cmd.Stderr = cmd.Stdout
	if err := cmd.Start(); err != nil {
		return nil, "", err
	}
	s := &smtSession{cmd: cmd, in: in, out: bufio.NewReader(outp)}
	io.WriteString(in, query)
	line, err := s.readSexp()
	return s, line, err
}

func (s *smtSession) readSexp() (string, error) {
	var b strings.Builder
	depth := 0
	started := false
	for {
		c, err := s.out.ReadByte()
		if err != nil {
			return b.String(), err
		}
		if !started {
			if c == ' ' || c == '\n' || c == '\t' || c == '\r' {
				continue
			}
			started = true
		}
		b.WriteByte(c)
		if c == '(' {
			depth++
		} else if c == ')' {
			depth--
			if depth == 0 {
				return b.String(), nil
			}
		} else if depth == 0 && (c == '\n') {
			return strings.TrimSpace(b.String()), nil
		}
	}
}

func (s *smtSession) value(term string) (string, error) {
	io.WriteString(s.in, "(get-value ("+term+"))\n")
	r, err := s.readSexp()
	if err != nil {
		return "", err
	}
	vs := parseGetValue(r)
	if len(vs) != 1 {
		return "", fmt.Errorf("bad get-value answer %q", truncate(r, 200))
	}
	return vs[0], nil
}

func (s *smtSession) close() {
	io.WriteString(s.in, "(exit)\n")
	s.in.Close()
	done := make(chan struct{})
	go func() { s.cmd.Wait(); close(done) }()
	select {
	case <-done:
	case <-time.After(2 * time.Second):
		s.cmd.Process.Kill()
	}
}

func (s *smtSession) intValue(term string) (int64, bool) {
	v, err := s.value(term)
	if err != nil {
		return 0, false
	}
	if b, ok := isLiteral(strings.ReplaceAll(v, "(- ", "(- ")); ok && b.IsInt64() {
		return b.Int64(), true
	}
	if b, ok := isLiteral(v); ok {
		if b.IsUint64() {
			return int64(b.Uint64()), true
		}
	}
	return 0, false
}

// ---- model -> Go source -----------------------------------------------------------------------

type goBuilder struct {
	s       *smtSession
	reg     *Registry
	pkg     *types.Package // package the test lives in
	pre     []string       // statements to emit before use
	n       int
	fail    string
	imports map[string]bool
}

func (g *goBuilder) typeStr(t types.Type) string {
	return types.TypeString(t, func(p *types.Package) string {
		if p == g.pkg {
			return ""
		}
		g.imports[p.Path()] = true
		return p.Name()
	})
}

const maxReplayLen = 70000

// value renders the Go expression that rebuilds term t's model value.
func (g *goBuilder) value(t Term) string {
	if g.fail != "" {
		return "nil"
	}
	if as, ok := g.reg.ifaceAs[g.reg.typeKey(t.T)]; ok {
		_ = as
		g.fail = "interface modelled as ghost object: " + g.typeStr(t.T)
		return "nil"
	}
	switch u := t.T.Underlying().(type) {
	case *types.Basic:
		switch {
		case u.Info()&types.IsInteger != 0:
			v, err := g.s.value(t.S)
			if err != nil {
				g.fail = err.Error()
				return "0"
			}
			b, ok := isLiteral(v)
			if !ok {
				g.fail = "non-literal integer " + v
				return "0"
			}
			if lo, hi, bits, _, ok := intRange(t.T); ok && (b.Cmp(lo) < 0 || b.Cmp(hi) > 0) {
				// unconstrained array cell outside the type's range: any value of the type will do
				m := new(big.Int).Lsh(big.NewInt(1), uint(bits))
				b = new(big.Int).Mod(b, m)
				if b.Cmp(hi) > 0 {
					b.Sub(b, m)
				}
			}
			return g.typeStr(t.T) + "(" + b.String() + ")"
		case u.Info()&types.IsBoolean != 0:
			v, _ := g.s.value(t.S)
			return v
		case u.Info()&types.IsString != 0:
			if t.Const != nil {
				return strconv.Quote(*t.Const)
			}
			n, ok := g.s.intValue("(strlen " + t.S + ")")
			if !ok || n > 4096 {
				n = 0
			}
			return g.typeStr(t.T) + "(" + strconv.Quote(strings.Repeat("x", int(n))) + ")"
		case u.Info()&types.IsFloat != 0:
			v, _ := g.s.intValue(t.S)
			if u.Kind() == types.Float32 {
				g.imports["math"] = true
				return fmt.Sprintf("math.Float32frombits(%d)", uint32(v))
			}
			g.imports["math"] = true
			return fmt.Sprintf("math.Float64frombits(%d)", uint64(v))
		}
	case *types.Slice:
		_, arr, off, ln, cp := g.reg.sliceParts(t)
		n, ok1 := g.s.intValue(ln)
		c, ok2 := g.s.intValue(cp)
		if !ok1 || !ok2 {
			g.fail = "slice length not in model"
			return "nil"
		}
		if n > maxReplayLen {
			g.fail = fmt.Sprintf("model needs a slice of %d elements", n)
			return "nil"
		}
		if c > maxReplayLen || c < n {
			c = n
		}
		// the octets between length and capacity come from the model too (a re-slice within the capacity shows them)
		fill := n
		if _, isBasic := u.Elem().Underlying().(*types.Basic); isBasic && c > n && c-n <= 64 {
			fill = c
		}
		var elems []string
		for i := int64(0); i < fill; i++ {
			el := Term{S: "(select " + arr + " (+ " + off + " " + strconv.FormatInt(i, 10) + "))", T: u.Elem()}
			ev := g.value(el)
			if b, ok := u.Elem().Underlying().(*types.Basic); ok && b.Info()&types.IsInteger != 0 {
				// strip the conversion for compactness
				if i := strings.Index(ev, "("); i >= 0 {
					ev = strings.TrimSuffix(ev[i+1:], ")")
				}
			}
			elems = append(elems, ev)
		}
		g.n++
		name := fmt.Sprintf("vrfS%d", g.n)
		ts := g.typeStr(t.T)
		g.pre = append(g.pre, fmt.Sprintf("%s := append(make(%s, 0, %d), %s{%s}...)", name, ts, c, ts, strings.Join(elems, ", ")))
		if fill > n {
			g.pre[len(g.pre)-1] += fmt.Sprintf("[:%d]", n)
		}
		if n == 0 && c == 0 {
			// distinguish nil from empty only by capacity 0
			g.pre[len(g.pre)-1] = fmt.Sprintf("var %s %s", name, ts)
		}
		return name
	case *types.Array:
		var elems []string
		for i := int64(0); i < u.Len(); i++ {
			elems = append(elems, g.value(Term{S: "(select " + t.S + " " + strconv.FormatInt(i, 10) + ")", T: u.Elem()}))
		}
		return g.typeStr(t.T) + "{" + strings.Join(elems, ", ") + "}"
	case *types.Pointer:
		isnil, _ := g.s.value(g.reg.isNil(t))
		if isnil == "true" {
			return "nil"
		}
		inner := g.reg.deref(t)
		if tn, ok := u.Elem().(*types.Named); ok && tn.Obj().Pkg() != nil && tn.Obj().Pkg().Path() == repoModule+"/reader" && tn.Obj().Name() == "Reader" {
			return g.readerValue(inner)
		}
		if _, ok := u.Elem().Underlying().(*types.Struct); ok {
			return "&" + g.value(inner)
		}
		g.n++
		name := fmt.Sprintf("vrfP%d", g.n)
		g.pre = append(g.pre, fmt.Sprintf("%s := %s", name, g.value(inner)))
		return "&" + name
	case *types.Struct:
		si := g.reg.StructInfo(t.T)
		if si.Opaque {
			return g.typeStr(t.T) + "{}" // zero value of a library struct (mutexes, buffers)
		}
		if tn, ok := t.T.(*types.Named); ok && tn.Obj().Pkg() != g.pkg {
			for _, f := range si.Fields {
				if !f.Ghost && !types.NewVar(0, nil, f.Name, nil).Exported() {
					g.fail = "foreign struct with unexported fields " + g.typeStr(t.T)
					return g.typeStr(t.T) + "{}"
				}
			}
		}
		var fs []string
		for _, f := range si.Fields {
			if f.Ghost {
				continue
			}
			ft, _ := g.reg.fieldOf(t, f.Name)
			fs = append(fs, f.Name+": "+g.value(ft))
		}
		return g.typeStr(t.T) + "{" + strings.Join(fs, ", ") + "}"
	case *types.Interface:
		isnil, _ := g.s.value("((_ is any_nil) " + t.S + ")")
		if isnil == "true" {
			return "nil"
		}
		if types.TypeString(t.T, nil) == "error" {
			g.imports["errors"] = true
			return `errors.New("vrf")`
		}
		g.fail = "non-nil interface value"
		return "nil"
	case *types.Map:
		isnil, _ := g.s.value(g.reg.isNil(t))
		if isnil == "true" {
			return "nil"
		}
		return g.typeStr(t.T) + "{}" // contents are not enumerated from the model
	case *types.Chan:
		return "make(" + g.typeStr(t.T) + ", 8)"
	}
	g.fail = "unsupported input type " + g.typeStr(t.T)
	return "nil"
}

// readerValue builds a *reader.Reader from the ghost base and the count.
func (g *goBuilder) readerValue(r Term) string {
	base, _ := g.reg.fieldOf(r, "base")
	cnt, _ := g.reg.fieldOf(r, "count")
	bv := g.value(base)
	c, _ := g.s.intValue(cnt.S)
	g.n++
	name := fmt.Sprintf("vrfR%d", g.n)
	if g.pkg.Path() == repoModule+"/reader" {
		g.pre = append(g.pre, fmt.Sprintf("%s := &Reader{data: %s[%d:], count: %d}", name, bv, c, c))
	} else {
		g.imports[repoModule+"/reader"] = true
		g.pre = append(g.pre, fmt.Sprintf("%s := reader.NewReader(%s)", name, bv), fmt.Sprintf("%s.Read(%d)", name, c))
	}
	return name
}

// canon renders the canonical text of a model value (same format as vrfFmt in the harness).
func (g *goBuilder) canon(t Term, depth int) string {
	if depth > 6 {
		return "…"
	}
	if _, ok := g.reg.ifaceAs[g.reg.typeKey(t.T)]; ok {
		return "?"
	}
	switch u := t.T.Underlying().(type) {
	case *types.Basic:
		switch {
		case u.Info()&types.IsInteger != 0, u.Info()&types.IsFloat != 0:
			v, _ := g.s.value(t.S)
			if b, ok := isLiteral(v); ok {
				return b.String()
			}
			return "?"
		case u.Info()&types.IsBoolean != 0:
			v, _ := g.s.value(t.S)
			return v
		case u.Info()&types.IsString != 0:
			if t.Const != nil {
				return strconv.Quote(*t.Const)
			}
			return "?"
		}
	case *types.Slice:
		_, arr, off, ln, _ := g.reg.sliceParts(t)
		n, ok := g.s.intValue(ln)
		if !ok || n > maxReplayLen {
			return "?"
		}
		var el []string
		for i := int64(0); i < n; i++ {
			el = append(el, g.canon(Term{S: "(select " + arr + " (+ " + off + " " + strconv.FormatInt(i, 10) + "))", T: u.Elem()}, depth+1))
		}
		return "[" + strings.Join(el, " ") + "]"
	case *types.Pointer:
		isnil, _ := g.s.value(g.reg.isNil(t))
		if isnil == "true" {
			return "nil"
		}
		return "&" + g.canon(g.reg.deref(t), depth+1)
	case *types.Struct:
		si := g.reg.StructInfo(t.T)
		if si.Opaque {
			return "?"
		}
		var fs []string
		for _, f := range si.Fields {
			if f.Ghost {
				continue
			}
			ft, _ := g.reg.fieldOf(t, f.Name)
			fs = append(fs, g.canon(ft, depth+1))
		}
		return "{" + strings.Join(fs, " ") + "}"
	case *types.Interface:
		isnil, _ := g.s.value("((_ is any_nil) " + t.S + ")")
		if isnil == "true" {
			return "nil"
		}
		return "non-nil"
	}
	return "?"
}

const harnessFmt = `
func vrfFmt(v reflect.Value, depth int) string {
	if depth > 6 {
		return "…"
	}
	switch v.Kind() {
	case reflect.Invalid:
		return "nil"
	case reflect.Int, reflect.Int8, reflect.Int16, reflect.Int32, reflect.Int64:
		return strconv.FormatInt(v.Int(), 10)
	case reflect.Uint, reflect.Uint8, reflect.Uint16, reflect.Uint32, reflect.Uint64, reflect.Uintptr:
		return strconv.FormatUint(v.Uint(), 10)
	case reflect.Float32:
		return strconv.FormatUint(uint64(math.Float32bits(float32(v.Float()))), 10)
	case reflect.Float64:
		return strconv.FormatUint(math.Float64bits(v.Float()), 10)
	case reflect.Bool:
		return strconv.FormatBool(v.Bool())
	case reflect.String:
		return "?"
	case reflect.Slice:
		var el []string
		for i := 0; i < v.Len(); i++ {
			el = append(el, vrfFmt(v.Index(i), depth+1))
		}
		return "[" + strings.Join(el, " ") + "]"
	case reflect.Ptr:
		if v.IsNil() {
			return "nil"
		}
		return "&" + vrfFmt(v.Elem(), depth+1)
	case reflect.Struct:
		var fs []string
		for i := 0; i < v.NumField(); i++ {
			fs = append(fs, vrfFmt(v.Field(i), depth+1))
		}
		return "{" + strings.Join(fs, " ") + "}"
	case reflect.Interface:
		if v.IsNil() {
			return "nil"
		}
		return "non-nil"
	}
	return "?"
}
`

type ReplayRecord struct {
	Property   string   `json:"property"`
	Obligation string   `json:"obligation"`
	Kind       string   `json:"kind"`
	Function   string   `json:"function"`
	Position   string   `json:"position"`
	Text       string   `json:"text"`
	Solver     string   `json:"solver"`
	SolverOut  string   `json:"solver_output"`
	Verdict    string   `json:"verdict"` // confirmed | not-reproduced | no-model | not-replayable
	Reason     string   `json:"reason,omitempty"`
	Inputs     []string `json:"inputs,omitempty"`
	Expected   []string `json:"model_outputs,omitempty"`
	Test       string   `json:"test,omitempty"`
	TestPkg    string   `json:"test_package,omitempty"`
	Command    string   `json:"command,omitempty"`
	Output     string   `json:"output,omitempty"`
}

// replayObligation tries to confirm a failed obligation on the real code.
func (r *Runner) replayObligation(prop string, o *Obligation) (*ReplayRecord, string) {
	rec := &ReplayRecord{Property: prop, Obligation: o.Name, Kind: o.Kind, Function: o.Func, Position: o.Pos, Text: o.Text, Solver: o.Solver, SolverOut: truncate(o.RawOut, 1500)}
	dir := filepath.Join(r.verif, "replays", prop)
	os.MkdirAll(dir, 0755)
	path := filepath.Join(dir, sanitize(o.Name)+".json")
	save := func() (*ReplayRecord, string) {
		b, _ := json.MarshalIndent(rec, "", " ")
		os.WriteFile(path, append(b, '\n'), 0644)
		return rec, path
	}
	fc := o.fc
	if o.Kind == "bounded" {
		rec.Test, rec.Command, rec.Output = o.BoundedTest, o.BoundedCmd, truncate(o.BoundedOut, 3000)
		rec.TestPkg = repoModule + "/vflow"
		if strings.Contains(o.BoundedOut, "VRF-RESULT VIOLATED") {
			rec.Verdict = "confirmed"
			for _, l := range strings.Split(o.BoundedOut, "\n") {
				if strings.HasPrefix(l, "VRF-RESULT VIOLATED") {
					rec.Reason = "bounded check on the real code: " + strings.TrimPrefix(l, "VRF-RESULT VIOLATED ")
				}
			}
		} else {
			rec.Verdict = "not-reproduced"
			rec.Reason = "the bounded check did not run to a result"
		}
		return save()
	}
	if fc != nil && o.GroundTest != "" {
		// ground obligation: the same fact is checked on the real package at run time
		rec.Test = "package " + fc.pkg.Types.Name() + "\n\nimport (\n\t\"fmt\"\n\t\"testing\"\n)\n\nfunc TestVrfReplay(t *testing.T) {\n\t" + o.GroundTest + "\n}\n"
		rec.TestPkg = fc.pkg.PkgPath
		out, cmdline := runOverlayTest(r.w.RepoDir, fc.pkg.PkgPath, rec.Test, "TestVrfReplay")
		rec.Command = cmdline
		rec.Output = truncate(out, 3000)
		if strings.Contains(out, "VRF-RESULT VIOLATED") {
			rec.Verdict = "confirmed"
			for _, l := range strings.Split(out, "\n") {
				if strings.HasPrefix(l, "VRF-RESULT VIOLATED") {
					rec.Reason = "the real package shows the violation: " + strings.TrimPrefix(l, "VRF-RESULT VIOLATED ")
				}
			}
		} else {
			rec.Verdict = "not-reproduced"
			rec.Reason = "the run-time check of the same fact on the real package holds"
		}
		return save()
	}
	if fc != nil && fc.contract != nil && fc.contract.Opts["replaytest"] != "" {
		// contract-supplied witness test: "<kind-prefix> <file under /verif/replaytests>" pairs
		fs := strings.Fields(fc.contract.Opts["replaytest"])
		for i := 0; i+1 < len(fs); i += 2 {
			if !strings.HasPrefix(o.Kind, fs[i]) {
				continue
			}
			src, err := os.ReadFile(filepath.Join("/verif/replaytests", fs[i+1]))
			if err != nil {
				continue
			}
			rec.Test = string(src)
			rec.TestPkg = fc.pkg.PkgPath
			out, cmdline := runOverlayTest(r.w.RepoDir, fc.pkg.PkgPath, rec.Test, "TestVrfReplay")
			rec.Command = cmdline
			rec.Output = truncate(out, 3000)
			rec.Inputs = []string{"witness test " + fs[i+1] + " (hand-written for this contract; the solver's model does not determine message contents)"}
			if strings.Contains(out, "VRF-RESULT VIOLATED") {
				rec.Verdict = "confirmed"
				for _, l := range strings.Split(out, "\n") {
					if strings.HasPrefix(l, "VRF-RESULT VIOLATED") {
						rec.Reason = strings.TrimPrefix(l, "VRF-RESULT VIOLATED ")
					}
				}
			} else {
				rec.Verdict = "not-reproduced"
				rec.Reason = "the witness test passes on the real code"
			}
			return save()
		}
	}
	if fc != nil && fc.contract != nil && fc.contract.Opts["noreplay"] != "" {
		rec.Verdict = "not-replayable"
		rec.Reason = fc.contract.Opts["noreplay"]
		return save()
	}
	if fc != nil && o.RawQuery != "" {
		if r.fnvReplay(rec, o) {
			return save()
		}
	}
	if fc == nil || fc.decl == nil {
		rec.Verdict = "no-model"
		rec.Reason = "solver answered " + o.Status + " (not a function obligation)"
		return save()
	}
	var sess *smtSession
	var first string
	var err error
	candidate := false
	if o.Kind == "lock.held" || o.Kind == "lock.order" {
		if rr := r.raceReplay(rec, o); rr {
			return save()
		}
	}
	if o.Status == "sat" {
		// ask the solver that found the obligation satisfiable first, then the others
		cmds := [][]string{{"z3-new", "-in", "-T:60"}, {"z3-new", "-in", "-T:60", "auto_config=false"}, {"z3", "-in", "-T:60"}}
		if strings.HasPrefix(o.Solver, "z3-4") {
			cmds = [][]string{cmds[2], cmds[0], cmds[1]}
		} else if strings.Contains(o.Solver, "auto_config") {
			cmds = [][]string{cmds[1], cmds[0], cmds[2]}
		}
		q := o.QueryWith(true, o.byteAxioms())
		for _, c := range cmds {
			sess, first, err = startSessionWith(q, c...)
			if err == nil && strings.TrimSpace(first) == "sat" {
				break
			}
			if sess != nil {
				sess.close()
				sess = nil
			}
		}
		if sess == nil {
			first, err = "timeout", nil
		}
	} else {
		// the solver could not decide the full query (quantified hypotheses): look for a candidate
		// model with the quantified hypotheses dropped; it is trusted only if it replays
		sess, first, err = startSession(o.queryOpts(true, nil, true))
		rec.SolverOut += "\n(model search with quantified hypotheses dropped: candidate only)"
		candidate = true
	}
	if err != nil || strings.TrimSpace(first) != "sat" {
		if sess != nil {
			sess.close()
		}
		sess, first, err = startSession(o.queryOpts(true, nil, o.Status != "sat"))
	}
	if (err != nil || strings.TrimSpace(first) != "sat") && o.Status == "sat" {
		// no model of the full query within the budget: a candidate without the quantified hypotheses
		if sess != nil {
			sess.close()
		}
		sess, first, err = startSession(o.queryOpts(true, nil, true))
		rec.SolverOut += "\n(model search with quantified hypotheses dropped: candidate only)"
		candidate = true
	}
	if err != nil || strings.TrimSpace(first) != "sat" {
		rec.Verdict = "no-model"
		rec.Reason = "model query answered " + strings.TrimSpace(first)
		if sess != nil {
			sess.close()
		}
		return save()
	}
	defer sess.close()
	g := &goBuilder{s: sess, reg: r.w.Reg, pkg: fc.pkg.Types, imports: map[string]bool{}}
	sig := fc.obj.Type().(*types.Signature)
	if fc.contract.Opts["replayimports"] != "" {
		for _, imp := range strings.Fields(fc.contract.Opts["replayimports"]) {
			g.imports[imp] = true
		}
	}
	var argExprs []string
	recvExpr := ""
	fileParam := ""
	if len(fc.havocSources) > 0 {
		// the function decodes a file into a value the verifier treats as arbitrary: the model's
		// value is serialised with encoding/json and handed over as the file
		hv := g.value(fc.havocSources[0])
		g.imports["encoding/json"] = true
		g.imports["os"] = true
		g.pre = append(g.pre, "vrfH := "+hv, "vrfData, _ := json.Marshal(vrfH)", "vrfFile, _ := os.CreateTemp(\"\", \"vrf\")", "vrfFile.Write(vrfData)", "vrfFile.Close()", "defer os.Remove(vrfFile.Name())")
		rec.Inputs = append(rec.Inputs, "file content = json.Marshal("+g.canon(fc.havocSources[0], 0)+")")
		for i := 0; i < sig.Params().Len(); i++ {
			if isString(sig.Params().At(i).Type()) {
				fileParam = fc.paramNames[i+b2i(sig.Recv() != nil)]
			}
		}
	}
	for i, in := range fc.inputs {
		if strings.HasPrefix(in.Name, "global ") {
			continue
		}
		v := g.value(in.Term)
		if in.Name == fileParam && fileParam != "" {
			v = "vrfFile.Name()"
		}
		rec.Inputs = append(rec.Inputs, in.Name+" = "+g.canon(in.Term, 0))
		if sig.Recv() != nil && i == 0 {
			recvExpr = v
			continue
		}
		argExprs = append(argExprs, v)
	}
	if g.fail != "" {
		rec.Verdict = "not-replayable"
		rec.Reason = g.fail
		return save()
	}
	// expected outputs per the model (for post/frame/inv obligations)
	var expect []string
	for _, out := range o.Outs {
		expect = append(expect, out.Name+"="+g.canon(out.Term, 0))
	}
	rec.Expected = expect

	// harness
	var b strings.Builder
	testName := "TestVrfReplay"
	b.WriteString("package " + fc.pkg.Types.Name() + "\n\nimport (\n\t\"fmt\"\n\t\"math\"\n\t\"reflect\"\n\t\"strconv\"\n\t\"strings\"\n\t\"testing\"\n\t\"time\"\n\tvrfos \"os\"\n")
	for imp := range g.imports {
		if imp == "math" {
			continue
		}
		b.WriteString("\t\"" + imp + "\"\n")
	}
	b.WriteString(")\n\nvar _ = math.Pi\nvar _ = time.Now\nvar _ = strings.Join\nvar _ = strconv.Itoa\n" + harnessFmt)
	b.WriteString("\nfunc " + testName + "(t *testing.T) {\n")
	// the function under replay may create files named by the model's strings: never in the repository
	b.WriteString("\tif d, err := vrfos.MkdirTemp(\"\", \"vrfcwd\"); err == nil {\n\t\tvrfos.Chdir(d)\n\t\tdefer vrfos.RemoveAll(d)\n\t}\n")
	for _, p := range g.pre {
		b.WriteString("\t" + p + "\n")
	}
	callee := fc.obj.Name()
	if sig.Recv() != nil {
		b.WriteString("\tvrfRecv := " + recvExpr + "\n")
		callee = "vrfRecv." + callee
	}
	var resNames []string
	for i := 0; i < sig.Results().Len(); i++ {
		resNames = append(resNames, fmt.Sprintf("vrfOut%d", i))
	}
	b.WriteString("\tdone := make(chan string, 1)\n\tgo func() {\n\t\tdefer func() {\n\t\t\tif p := recover(); p != nil {\n\t\t\t\tdone <- fmt.Sprintf(\"PANIC %v\", p)\n\t\t\t}\n\t\t}()\n")
	call := callee + "(" + strings.Join(argExprs, ", ") + ")"
	if sig.Variadic() {
		call = callee + "(" + strings.Join(argExprs, ", ") + "...)"
	}
	if len(resNames) > 0 {
		b.WriteString("\t\t" + strings.Join(resNames, ", ") + " := " + call + "\n")
	} else {
		b.WriteString("\t\t" + call + "\n")
	}
	if probe := fc.contract.Opts["replayprobe"]; probe != "" {
		// contract-supplied probe: statements that exercise the result the way callers do
		b.WriteString("\t\t" + strings.ReplaceAll(probe, "result", "vrfOut0") + "\n")
	}
	b.WriteString("\t\tvar parts []string\n")
	for i, rn := range resNames {
		b.WriteString(fmt.Sprintf("\t\tparts = append(parts, %q+vrfFmt(reflect.ValueOf(&%s).Elem(), 0))\n", fc.rnames[i]+"=", rn))
	}
	// final values of pointer parameters
	pi := 0
	for i, pv := range fc.paramVars {
		isRecv := sig.Recv() != nil && i == 0
		if _, ok := pv.Type().Underlying().(*types.Pointer); ok {
			expr := ""
			if isRecv {
				expr = "vrfRecv"
			} else {
				expr = argExprs[pi]
			}
			if expr != "nil" && !strings.HasPrefix(expr, "&") {
				b.WriteString(fmt.Sprintf("\t\tparts = append(parts, %q+vrfFmt(reflect.ValueOf(%s), 0))\n", "final "+fc.paramNames[i]+"=", expr))
			}
		}
		if !isRecv {
			pi++
		}
	}
	b.WriteString("\t\tdone <- \"RETURN \" + strings.Join(parts, \"; \")\n\t}()\n")
	b.WriteString("\tselect {\n\tcase s := <-done:\n\t\tfmt.Println(\"VRF-RESULT\", s)\n\tcase <-time.After(10 * time.Second):\n\t\tfmt.Println(\"VRF-RESULT TIMEOUT\")\n\t}\n}\n")
	rec.Test = b.String()
	rec.TestPkg = fc.pkg.PkgPath

	out, cmdline := runOverlayTest(r.w.RepoDir, fc.pkg.PkgPath, rec.Test, testName)
	rec.Command = cmdline
	rec.Output = truncate(out, 4000)
	rec.Verdict, rec.Reason = judgeReplay(o, out, expect)
	if candidate && rec.Verdict == "confirmed" {
		// the input came from a query without the quantified hypotheses (it may violate the
		// function's precondition), so the run is recorded but not counted as a failing input
		rec.Verdict = "candidate-reproduced"
		rec.Reason = "candidate input (quantified hypotheses were dropped when searching for it; it may violate the precondition): " + rec.Reason
	}
	return save()
}

func judgeReplay(o *Obligation, out string, expect []string) (string, string) {
	res := ""
	for _, l := range strings.Split(out, "\n") {
		if strings.HasPrefix(l, "VRF-RESULT ") {
			res = strings.TrimPrefix(l, "VRF-RESULT ")
		}
	}
	if res == "" {
		return "not-reproduced", "replay did not run to a result (build error?)"
	}
	switch {
	case strings.HasPrefix(o.Kind, "panic."), o.Kind == "pre" && strings.HasPrefix(res, "PANIC"):
		if strings.HasPrefix(res, "PANIC") {
			return "confirmed", "real code panics: " + res
		}
		return "not-reproduced", "no panic on the model's input"
	case strings.HasPrefix(o.Kind, "var."):
		if res == "TIMEOUT" {
			return "confirmed", "real code does not terminate within 10 s on the model's input"
		}
		return "not-reproduced", "terminated"
	}
	if strings.HasPrefix(res, "PANIC") {
		return "confirmed", "real code panics on the model's input: " + res
	}
	if res == "TIMEOUT" {
		return "confirmed", "real code does not terminate on the model's input"
	}
	// post / frame / inv: the real outputs must coincide with the model's (which violate the goal)
	got := map[string]string{}
	for _, p := range strings.Split(strings.TrimPrefix(res, "RETURN "), "; ") {
		if i := strings.Index(p, "="); i >= 0 {
			got[p[:i]] = p[i+1:]
		}
	}
	matched := 0
	for _, e := range expect {
		i := strings.Index(e, "=")
		name, want := e[:i], e[i+1:]
		g, ok := got[name]
		if !ok {
			continue
		}
		if !canonMatch(want, g) {
			return "not-reproduced", fmt.Sprintf("real %s=%s differs from the model's %s", name, g, want)
		}
		if strings.ContainsAny(want, "0123456789") || want == "nil" || want == "true" || want == "false" {
			matched++ // an informative agreement (a bare "non-nil" or "?" says nothing)
		}
	}
	if matched == 0 {
		return "not-reproduced", "no comparable outputs"
	}
	return "confirmed", "real code returns the outputs of the counter-model, which violate the obligation: " + res
}

// canonMatch compares canonical texts; "?" in the model text matches anything.
func canonMatch(model, real string) bool {
	if model == real {
		return true
	}
	mt, rt := strings.Fields(strings.NewReplacer("{", " { ", "}", " } ", "[", " [ ", "]", " ] ", "&", " & ").Replace(model)), strings.Fields(strings.NewReplacer("{", " { ", "}", " } ", "[", " [ ", "]", " ] ", "&", " & ").Replace(real))
	if len(mt) != len(rt) {
		return strings.Contains(model, "?") && !strings.ContainsAny(model, "[") // unknown-size parts
	}
	for i := range mt {
		if mt[i] != rt[i] && mt[i] != "?" && rt[i] != "?" {
			return false
		}
	}
	return true
}

func runOverlayTest(repo, pkgPath, testSrc, testName string) (string, string) {
	return runOverlayTestFlags(repo, pkgPath, testSrc, testName, nil)
}

func runOverlayTestFlags(repo, pkgPath, testSrc, testName string, flags []string) (string, string) {
	scratch, _ := os.MkdirTemp("", "govc-replay")
	defer os.RemoveAll(scratch)
	tf := filepath.Join(scratch, "vrf_replay_test.go")
	os.WriteFile(tf, []byte(testSrc), 0644)
	rel := strings.TrimPrefix(strings.TrimPrefix(pkgPath, repoModule), "/")
	target := filepath.Join(repo, rel, "zz_vrf_replay_test.go")
	ov, _ := json.Marshal(map[string]map[string]string{"Replace": {target: tf}})
	ovf := filepath.Join(scratch, "ov.json")
	os.WriteFile(ovf, ov, 0644)
	args := []string{"test", "-overlay", ovf, "-vet=off", "-count=1", "-timeout", "60s"}
	args = append(args, flags...)
	args = append(args, "-run", "^"+testName+"$", "-v", "./"+rel)
	cmd := exec.Command("go", args...)
	cmd.Dir = repo
	cmd.Env = append(os.Environ(), "GOFLAGS=-mod=mod", "GOPROXY=off", "GOSUMDB=off", "GOTOOLCHAIN=local", "GOMEMLIMIT=2GiB")
	var buf bytes.Buffer
	cmd.Stdout = &buf
	cmd.Stderr = &buf
	cmd.Run()
	return buf.String(), "cd " + repo + " && go " + strings.Join(args, " ") + "   (overlay injects the test below as " + target + ")"
}

// raceReplay: for a lock obligation of a template-cache method, run the method against concurrent
// inserts under the race detector (a schedule found by running, reported as such).
func (r *Runner) raceReplay(rec *ReplayRecord, o *Obligation) bool {
	fc := o.fc
	if fc == nil || fc.decl == nil {
		return false
	}
	sig := fc.obj.Type().(*types.Signature)
	if sig.Recv() == nil || !strings.HasSuffix(types.TypeString(sig.Recv().Type(), nil), "MemCache") {
		return false
	}
	var args []string
	for i := 0; i < sig.Params().Len(); i++ {
		switch types.TypeString(sig.Params().At(i).Type(), nil) {
		case "string":
			args = append(args, "vrfFile")
		case "uint16":
			args = append(args, "uint16(300)")
		case "net.IP":
			args = append(args, "net.IP{10, 0, 0, 1}")
		default:
			if strings.HasSuffix(types.TypeString(sig.Params().At(i).Type(), nil), "TemplateRecord") {
				args = append(args, "TemplateRecord{TemplateID: 300}")
			} else {
				return false
			}
		}
	}
	recv := "vrfM"
	if _, ptr := sig.Recv().Type().(*types.Pointer); ptr {
		recv = "(&vrfM)"
	}
	ins := "vrfM.insert"
	if fc.pkg.Types.Name() == "netflow9" {
		ins = "(&vrfM).insert"
	}
	src := "package " + fc.pkg.Types.Name() + `

import (
	"net"
	"os"
	"sync"
	"testing"
)

var _ = net.IPv4len

func TestVrfReplay(t *testing.T) {
	vrfM := GetCache("")
	f, _ := os.CreateTemp("", "vrf")
	vrfFile := f.Name()
	f.Close()
	defer os.Remove(vrfFile)
	var wg sync.WaitGroup
	wg.Add(2)
	go func() {
		defer wg.Done()
		for i := 0; i < 2000; i++ {
			` + ins + `(uint16(256+i%64), net.IP{10, 0, byte(i >> 8), byte(i)}, TemplateRecord{TemplateID: uint16(256 + i%64)})
		}
	}()
	go func() {
		defer wg.Done()
		for i := 0; i < 50; i++ {
			` + recv + "." + fc.obj.Name() + "(" + strings.Join(args, ", ") + `)
		}
	}()
	wg.Wait()
}
`
	rec.Test = src
	rec.TestPkg = fc.pkg.PkgPath
	out, cmdline := runOverlayTestFlags(r.w.RepoDir, fc.pkg.PkgPath, src, "TestVrfReplay", []string{"-race"})
	rec.Command = cmdline
	rec.Output = truncate(out, 4000)
	if strings.Contains(out, "DATA RACE") || strings.Contains(out, "concurrent map") {
		rec.Verdict = "confirmed"
		rec.Reason = "go test -race: DATA RACE between " + fc.obj.Name() + " and a concurrent insert (schedule found by running)"
	} else {
		rec.Verdict = "not-reproduced"
		rec.Reason = "no data race observed in the sampled schedules"
	}
	return true
}

// fnvReplay: a model of the key lemma is a pair of distinct (address, id) with the same map key;
// the real cache is shown to hand exporter A's template to exporter B.
func (r *Runner) fnvReplay(rec *ReplayRecord, o *Obligation) bool {
	sess, first, err := startSession(o.RawQuery)
	if err != nil || strings.TrimSpace(first) != "sat" {
		if sess != nil {
			sess.close()
		}
		return false
	}
	defer sess.close()
	get := func(prefix string) []int {
		var out []int
		for i := 0; i < o.RawVars; i++ {
			v, err := sess.value(fmt.Sprintf("%s%d", prefix, i))
			if err != nil {
				return nil
			}
			var x int
			if strings.HasPrefix(v, "#x") {
				n, _ := strconv.ParseInt(v[2:], 16, 32)
				x = int(n)
			} else if strings.HasPrefix(v, "#b") {
				n, _ := strconv.ParseInt(v[2:], 2, 32)
				x = int(n)
			}
			out = append(out, x)
		}
		return out
	}
	a, b := get("a"), get("b")
	if a == nil || b == nil {
		return false
	}
	n := o.RawVars - 2
	ip := func(k []int) string {
		var parts []string
		for _, x := range k[:n] {
			parts = append(parts, strconv.Itoa(x))
		}
		return "net.IP{" + strings.Join(parts, ", ") + "}"
	}
	id := func(k []int) int { return k[n]*256 + k[n+1] }
	rec.Inputs = []string{fmt.Sprintf("exporter A = %s id %d", ip(a), id(a)), fmt.Sprintf("exporter B = %s id %d", ip(b), id(b))}
	for _, pkgPath := range []string{repoModule + "/ipfix"} {
		src := fmt.Sprintf(`package ipfix

import (
	"fmt"
	"net"
	"testing"
)

func TestVrfReplay(t *testing.T) {
	m := GetCache("")
	a, b := %s, %s
	m.insert(%d, a, TemplateRecord{TemplateID: %d, FieldCount: 7})
	got, ok := m.retrieve(%d, b)
	if ok {
		fmt.Println("VRF-RESULT VIOLATED exporter", b, "id", %d, "never announced a template but retrieve returns", got, "(announced by", a, ")")
	} else {
		fmt.Println("VRF-RESULT HOLDS")
	}
}
`, ip(a), ip(b), id(a), id(a), id(b), id(b))
		rec.Test = src
		rec.TestPkg = pkgPath
		out, cmdline := runOverlayTest(r.w.RepoDir, pkgPath, src, "TestVrfReplay")
		rec.Command = cmdline
		rec.Output = truncate(out, 3000)
		if strings.Contains(out, "VRF-RESULT VIOLATED") {
			rec.Verdict = "confirmed"
			for _, l := range strings.Split(out, "\n") {
				if strings.HasPrefix(l, "VRF-RESULT VIOLATED") {
					rec.Reason = strings.TrimPrefix(l, "VRF-RESULT VIOLATED ")
				}
			}
		} else {
			rec.Verdict = "not-reproduced"
			rec.Reason = "the colliding pair did not reproduce on the real cache"
		}
	}
	return true
}
