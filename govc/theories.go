package main

// Ghost theories layered on the core: lock permissions, allocation bounds.

import (
	"go/ast"
	"go/types"
)

func (fc *FuncCtx) lockEffects(st *State, call *ast.CallExpr, fn *types.Func, args []boundArg) {}

func (fc *FuncCtx) lockCheck(st *State, e ast.Expr, mode string, n ast.Node) {}

// allocCheck (C02): a dynamically sized allocation must be bounded by a constant (default 2048
// elements, or the function's `opt allocbound N`), never by an unchecked wire field.
func (fc *FuncCtx) allocCheck(st *State, size Term, elem types.Type, n ast.Node) {
	if _, ok := isLiteral(size.S); ok {
		return
	}
	bound := "2048"
	if fc.contract != nil && fc.contract.Opts["allocbound"] != "" {
		bound = fc.contract.Opts["allocbound"]
	}
	fc.oblige(st, "alloc.bound", "", "(<= "+size.S+" "+bound+")", n, "allocation size is bounded by "+bound+" elements (not by an unchecked length field)")
}

// globalKey returns pkgpath.name when e denotes a package-level variable.
func (fc *FuncCtx) globalKey(e ast.Expr) string {
	e = unparen(e)
	var obj types.Object
	switch x := e.(type) {
	case *ast.Ident:
		obj = fc.info.ObjectOf(x)
	case *ast.SelectorExpr:
		obj = fc.info.ObjectOf(x.Sel)
	}
	v, ok := obj.(*types.Var)
	if !ok || v.Pkg() == nil || fc.isLocal(v) || v.IsField() {
		return ""
	}
	return v.Pkg().Path() + "." + v.Name()
}

func (fc *FuncCtx) objInvTerm(st *State, oi *ObjInv, v Term, n ast.Node) string {
	env := fc.w.newEnv(oi.Pkg)
	env.vars[oi.Elem] = v
	fc.bindGlobals(st, env, &Contract{Pkg: oi.Pkg})
	return fc.cevalIn(env, oi.Clause, n).S
}

// chanSend: the channel invariant is an obligation on the value sent.
func (fc *FuncCtx) chanSend(st *State, ch ast.Expr, v Term, n ast.Node) {
	if oi := fc.w.ChanInvs[fc.globalKey(ch)]; oi != nil {
		fc.oblige(st, "chan.inv", "", fc.objInvTerm(st, oi, v, n), n, "value sent on "+exprStr(ch)+" satisfies the channel invariant: "+oi.Clause.Text)
	}
}

// chanRecvAssume: a received value satisfies the channel invariant.
func (fc *FuncCtx) chanRecvAssume(st *State, ch ast.Expr, v Term, ok string, n ast.Node) {
	if oi := fc.w.ChanInvs[fc.globalKey(ch)]; oi != nil {
		fc.assume(st, implies(ok, fc.objInvTerm(st, oi, v, n)))
	}
}
