package main

// Ghost theories layered on the core: lock permissions, allocation bounds.

import (
	"go/ast"
	"go/types"
)

func (fc *FuncCtx) lockEffects(st *State, call *ast.CallExpr, fn *types.Func, args []boundArg) {}

func (fc *FuncCtx) lockCheck(st *State, e ast.Expr, mode string, n ast.Node) {}

func (fc *FuncCtx) allocCheck(st *State, size Term, elem types.Type, n ast.Node) {}
