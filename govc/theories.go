package main

// Ghost theories layered on the core: lock permissions, allocation bounds.

import (
	"go/ast"
	"go/types"
	"sort"
	"strings"
)

// ---- lock permissions (C10) ---------------------------------------------------------------------
// held maps the source text of a lock owner expression ("shard", "m[*]") to the mode it is held in.

func (fc *FuncCtx) lockEffects(st *State, call *ast.CallExpr, fn *types.Func, args []boundArg) {
	var op string
	switch fn.FullName() {
	case "(*sync.RWMutex).Lock", "(*sync.Mutex).Lock":
		op = "W"
	case "(*sync.RWMutex).RLock":
		op = "R"
	case "(*sync.RWMutex).Unlock", "(*sync.Mutex).Unlock":
		op = "UW"
	case "(*sync.RWMutex).RUnlock":
		op = "UR"
	default:
		return
	}
	sel, ok := unparen(call.Fun).(*ast.SelectorExpr)
	if !ok {
		return
	}
	key := exprStr(sel.X)
	cur := st.held[key]
	switch op {
	case "W", "R":
		if cur != "" {
			fc.oblige(st, "lock.order", key, "false", call, "lock of "+key+" acquired while it is already held (self-deadlock)")
		}
		if len(st.held) > 0 && cur == "" {
			fc.oblige(st, "lock.order", key, "false", call, "a second lock is acquired while another is held (lock-order / deadlock freedom is argued only for single-lock critical sections)")
		}
		st.held[key] = op
	case "UW", "UR":
		want := op[1:]
		if cur != want {
			fc.oblige(st, "lock.held", key, "false", call, "unlock of "+key+" which is not held in mode "+want)
		}
		delete(st.held, key)
	}
}

// lockCheck: an access to a guarded field needs the owner's lock in a sufficient mode.
func (fc *FuncCtx) lockCheck(st *State, e ast.Expr, mode string, n ast.Node) {
	sel, ok := unparen(e).(*ast.SelectorExpr)
	if !ok {
		return
	}
	s := fc.info.Selections[sel]
	if s == nil || s.Kind() != types.FieldVal {
		return
	}
	recv := s.Recv()
	if p, ok := recv.Underlying().(*types.Pointer); ok {
		recv = p.Elem()
	}
	if !fc.w.Guarded[qualName(recv)+"."+sel.Sel.Name] {
		return
	}
	if fc.contract != nil && fc.contract.Opts["nolock"] != "" {
		return
	}
	owner := exprStr(sel.X)
	have := st.held[owner]
	okMode := have == "W" || (mode == "R" && have == "R")
	goal := "false"
	if okMode {
		goal = "true"
	}
	what := "read"
	if mode == "W" {
		what = "write"
	}
	fc.oblige(st, "lock.held", owner, goal, n, what+" of "+exprStr(e)+" under the lock of "+owner+" (held: "+strings.TrimSpace(have+" ")+")")
}

// reachesGuarded: a value of this static type can reach a guarded field.
func (fc *FuncCtx) reachesGuarded(t types.Type, depth int) bool {
	if depth > 6 {
		return false
	}
	switch u := t.Underlying().(type) {
	case *types.Pointer:
		return fc.reachesGuarded(u.Elem(), depth+1)
	case *types.Slice:
		return fc.reachesGuarded(u.Elem(), depth+1)
	case *types.Array:
		return fc.reachesGuarded(u.Elem(), depth+1)
	case *types.Map:
		return fc.reachesGuarded(u.Elem(), depth+1)
	case *types.Struct:
		for i := 0; i < u.NumFields(); i++ {
			if fc.w.Guarded[qualName(t)+"."+u.Field(i).Name()] {
				return true
			}
			if fc.reachesGuarded(u.Field(i).Type(), depth+1) {
				return true
			}
		}
	}
	return false
}

// reflectReads: a reflection-based reader (json.Marshal) touches everything reachable from its
// argument; every variable in the argument expression whose type reaches a guarded field must
// have all its elements locked.
func (fc *FuncCtx) reflectReads(st *State, call *ast.CallExpr) {
	if fc.contract != nil && fc.contract.Opts["nolock"] != "" {
		return
	}
	for _, a := range call.Args {
		ast.Inspect(a, func(n ast.Node) bool {
			id, ok := n.(*ast.Ident)
			if !ok {
				return true
			}
			v, ok := fc.info.ObjectOf(id).(*types.Var)
			if !ok || !fc.reachesGuarded(v.Type(), 0) {
				return true
			}
			have := st.held[id.Name+"[*]"]
			goal := "false"
			if have == "R" || have == "W" {
				goal = "true"
			}
			fc.oblige(st, "lock.held", id.Name+"[*]", goal, call, exprStr(call.Fun)+" reads every shard reachable from "+id.Name+" by reflection: all of them must be locked")
			return true
		})
	}
}

// lockLoop handles `for _, s := range m { s.RLock() }` (acquires) and the matching release loop.
func (fc *FuncCtx) lockLoop(st *State, x *ast.RangeStmt, lc *LoopContract) bool {
	spec := lc.Acquires
	rel := false
	if spec == "" {
		spec, rel = lc.Releases, true
	}
	if spec == "" {
		return false
	}
	fs := strings.Fields(spec)
	owner := fs[0]
	id, ok := unparen(x.X).(*ast.Ident)
	vid, ok2 := x.Value.(*ast.Ident)
	if !ok || !ok2 || id.Name != owner || len(x.Body.List) != 1 {
		fc.fail(x, "acquires/releases loop must be `for _, s := range %s { s.Lock()|RLock()|Unlock()|RUnlock() }`", owner)
	}
	es, ok := x.Body.List[0].(*ast.ExprStmt)
	var call *ast.CallExpr
	if ok {
		call, ok = es.X.(*ast.CallExpr)
	}
	if !ok {
		fc.fail(x, "acquires/releases loop body must be a single lock call")
	}
	sel, ok := call.Fun.(*ast.SelectorExpr)
	rid, ok2 := sel.X.(*ast.Ident)
	if !ok || !ok2 || rid.Name != vid.Name {
		fc.fail(x, "acquires/releases loop must lock the range variable")
	}
	// element dereference safety: every element must be non-nil
	coll := fc.eval(st, x.X)
	if sl, isSl := coll.T.Underlying().(*types.Slice); isSl {
		_, arr, off, ln, _ := fc.reg().sliceParts(coll)
		el := Term{S: "(select " + arr + " q_lk)", T: sl.Elem()}
		fc.oblige(st, "panic.nilptr", "", "(forall ((q_lk Int)) (=> (and (<= "+off+" q_lk) (< q_lk (+ "+off+" "+ln+"))) "+not(fc.reg().isNil(el))+"))", x, "every shard locked by the loop is non-nil")
	}
	switch sel.Sel.Name {
	case "RLock", "Lock":
		mode := "R"
		if sel.Sel.Name == "Lock" {
			mode = "W"
		}
		if rel || len(fs) < 2 || fs[1] != mode {
			fc.fail(x, "loop contract says %q but the body calls %s", spec, sel.Sel.Name)
		}
		if len(st.held) > 0 {
			fc.oblige(st, "lock.order", owner+"[*]", "false", x, "locks acquired while others are held")
		}
		st.held[owner+"[*]"] = mode
	case "RUnlock", "Unlock":
		mode := "R"
		if sel.Sel.Name == "Unlock" {
			mode = "W"
		}
		if !rel {
			fc.fail(x, "loop contract says acquires but the body unlocks")
		}
		if st.held[owner+"[*]"] != mode {
			fc.oblige(st, "lock.held", owner+"[*]", "false", x, "release of locks that are not held in mode "+mode)
		}
		delete(st.held, owner+"[*]")
	default:
		fc.fail(x, "acquires/releases loop body must call a lock method")
	}
	return true
}

// allocCheck (C02): a dynamically sized allocation must be bounded by a constant (default 2048
// elements, or the function's `opt allocbound N`), never by an unchecked wire field.
func (fc *FuncCtx) allocCheck(st *State, size Term, elem types.Type, n ast.Node) {
	if _, ok := isLiteral(size.S); ok {
		return
	}
	bound := "2048"
	if fc.contract != nil && fc.contract.Opts["allocbound"] != "" {
		bound = fc.contract.Opts["allocbound"]
	}
	fc.oblige(st, "alloc.bound", "", "(<= "+size.S+" "+bound+")", n, "allocation size is bounded by "+bound+" elements (not by an unchecked length field)")
}

// globalKey returns pkgpath.name when e denotes a package-level variable.
func (fc *FuncCtx) globalKey(e ast.Expr) string {
	e = unparen(e)
	var obj types.Object
	switch x := e.(type) {
	case *ast.Ident:
		obj = fc.info.ObjectOf(x)
	case *ast.SelectorExpr:
		obj = fc.info.ObjectOf(x.Sel)
	}
	v, ok := obj.(*types.Var)
	if !ok || v.Pkg() == nil || fc.isLocal(v) || v.IsField() {
		return ""
	}
	return v.Pkg().Path() + "." + v.Name()
}

func (fc *FuncCtx) objInvTerm(st *State, oi *ObjInv, v Term, n ast.Node) string {
	env := fc.w.newEnv(oi.Pkg)
	env.vars[oi.Elem] = v
	fc.bindGlobals(st, env, &Contract{Pkg: oi.Pkg})
	return fc.cevalIn(env, oi.Clause, n).S
}

// chanPredsFor lists the ghost channel predicates whose element type matches.
func (fc *FuncCtx) chanPredsFor(elem types.Type) []string {
	var out []string
	for name, oi := range fc.w.ChanPreds {
		if types.Identical(oi.ElemType, elem) {
			out = append(out, name)
		}
	}
	sort.Strings(out)
	return out
}

// chanSend: the channel invariant is an obligation on the value sent.
func (fc *FuncCtx) chanSend(st *State, ch ast.Expr, v Term, n ast.Node) {
	if ct, ok := fc.typeOf(ch).Underlying().(*types.Chan); ok {
		for _, name := range fc.chanPredsFor(ct.Elem()) {
			oi := fc.w.ChanPreds[name]
			fc.w.declareUninterp(fc.w.Uninterps[name])
			c := fc.eval(st, ch)
			fc.oblige(st, "chan.inv", name, implies("(u_"+name+" "+c.S+")", fc.objInvTerm(st, oi, v, n)), n, "value sent on "+exprStr(ch)+" satisfies "+name+": "+oi.Clause.Text)
		}
	}
	if oi := fc.w.ChanInvs[fc.globalKey(ch)]; oi != nil {
		fc.oblige(st, "chan.inv", "", fc.objInvTerm(st, oi, v, n), n, "value sent on "+exprStr(ch)+" satisfies the channel invariant: "+oi.Clause.Text)
	}
}

// chanRecvAssume: a received value satisfies the channel invariant.
func (fc *FuncCtx) chanRecvAssume(st *State, ch ast.Expr, v Term, ok string, n ast.Node) {
	if ct, isCh := fc.typeOf(ch).Underlying().(*types.Chan); isCh {
		for _, name := range fc.chanPredsFor(ct.Elem()) {
			oi := fc.w.ChanPreds[name]
			fc.w.declareUninterp(fc.w.Uninterps[name])
			saved := fc.quiet
			fc.quiet = true
			c := fc.eval(st, ch)
			fc.quiet = saved
			fc.assume(st, implies(and(ok, "(u_"+name+" "+c.S+")"), fc.objInvTerm(st, oi, v, n)))
		}
	}
	if oi := fc.w.ChanInvs[fc.globalKey(ch)]; oi != nil {
		fc.assume(st, implies(ok, fc.objInvTerm(st, oi, v, n)))
	}
}
