package producer

// Replay witness for RawSocket.inputMsg (C14): a message containing '%' must reach the sink
// byte for byte, newline-terminated.

import (
	"bufio"
	"fmt"
	"io"
	"log"
	"net"
	"testing"
	"time"
)

func TestVrfReplay(t *testing.T) {
	ln, err := net.Listen("tcp", "127.0.0.1:0")
	if err != nil {
		t.Skip(err)
	}
	defer ln.Close()
	got := make(chan string, 1)
	go func() {
		c, err := ln.Accept()
		if err != nil {
			got <- "accept: " + err.Error()
			return
		}
		defer c.Close()
		c.SetReadDeadline(time.Now().Add(3 * time.Second))
		line, _ := bufio.NewReader(c).ReadString('\n')
		got <- line
	}()
	conn, err := net.Dial("tcp", ln.Addr().String())
	if err != nil {
		t.Skip(err)
	}
	rs := &RawSocket{connection: conn, logger: log.New(io.Discard, "", 0), config: RawSocketConfig{URL: ln.Addr().String(), Protocol: "tcp", MaxRetry: 0}}
	msg := `{"V":"100%d","W":"%s%%"}`
	ch := make(chan []byte, 1)
	ch <- []byte(msg)
	close(ch)
	var ec uint64
	rs.inputMsg("", ch, &ec)
	conn.Close()
	select {
	case line := <-got:
		if line != msg+"\n" {
			fmt.Printf("VRF-RESULT VIOLATED handed over %q, the sink received %q\n", msg+"\n", line)
		} else {
			fmt.Println("VRF-RESULT HOLDS")
		}
	case <-time.After(5 * time.Second):
		fmt.Println("VRF-RESULT VIOLATED nothing received")
	}
}
