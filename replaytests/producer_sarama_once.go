package producer

// Replay witness for KafkaSarama.inputMsg (C14): every message taken from the queue must be handed
// to the producer's input, also when the producer reports an error at the same moment.

import (
	"errors"
	"fmt"
	"io"
	"log"
	"testing"
	"time"

	"github.com/Shopify/sarama"
)

type vrfStubProducer struct {
	in   chan *sarama.ProducerMessage
	errs chan *sarama.ProducerError
}

func (p *vrfStubProducer) AsyncClose()                               {}
func (p *vrfStubProducer) Close() error                              { return nil }
func (p *vrfStubProducer) Input() chan<- *sarama.ProducerMessage     { return p.in }
func (p *vrfStubProducer) Successes() <-chan *sarama.ProducerMessage { return nil }
func (p *vrfStubProducer) Errors() <-chan *sarama.ProducerError      { return p.errs }

func TestVrfReplay(t *testing.T) {
	const n = 200
	lost := 0
	for round := 0; round < 20 && lost == 0; round++ {
		p := &vrfStubProducer{in: make(chan *sarama.ProducerMessage, n), errs: make(chan *sarama.ProducerError, n)}
		for i := 0; i < n; i++ {
			p.errs <- &sarama.ProducerError{Err: errors.New("vrf")} // an error is pending whenever a message is handed over
		}
		k := &KafkaSarama{producer: p, logger: log.New(io.Discard, "", 0)}
		ch := make(chan []byte, n)
		for i := 0; i < n; i++ {
			ch <- []byte(fmt.Sprintf("m%d", i))
		}
		close(ch)
		var ec uint64
		done := make(chan struct{})
		go func() { k.inputMsg("t", ch, &ec); close(done) }()
		select {
		case <-done:
		case <-time.After(5 * time.Second):
		}
		lost = n - len(p.in)
	}
	if lost > 0 {
		fmt.Printf("VRF-RESULT VIOLATED %d of %d messages taken from the queue were never handed to the producer (the error case of the select was taken instead)\n", lost, n)
	} else {
		fmt.Println("VRF-RESULT HOLDS")
	}
}
