package reader

// Bounded cross-check of the assumed library contracts in /verif/contracts/extern.contracts (thorough tier): each
// clause that can be stated on concrete values is evaluated on random and boundary inputs of the real library.
// Not part of any proof; a failure means an assumption of the proofs is false.

import (
	"bytes"
	"encoding/binary"
	"encoding/hex"
	"encoding/json"
	"fmt"
	"hash/fnv"
	"io"
	"math"
	"math/rand"
	"net"
	"sort"
	"strconv"
	"strings"
	"testing"
)

type shortWriter struct {
	writes int
	buf    bytes.Buffer
}

func (w *shortWriter) Write(p []byte) (int, error) { w.writes++; return w.buf.Write(p) }

func TestVrfReplay(t *testing.T) {
	rnd := rand.New(rand.NewSource(20260928))
	bad := []string{}
	fail := func(f string, a ...interface{}) {
		if len(bad) < 10 {
			bad = append(bad, fmt.Sprintf(f, a...))
		}
	}
	n := 0
	for it := 0; it < 2000; it++ {
		b := make([]byte, 8+rnd.Intn(24))
		rnd.Read(b)
		if it%50 == 0 {
			for i := range b {
				b[i] = 0xff
			}
		}
		// binary.BigEndian.UintNN: the written-out big-endian sums
		if got, want := uint64(binary.BigEndian.Uint16(b)), uint64(b[0])*256+uint64(b[1]); got != want {
			fail("Uint16 %x: %d != %d", b[:2], got, want)
		}
		if got, want := uint64(binary.BigEndian.Uint32(b)), uint64(b[0])*16777216+uint64(b[1])*65536+uint64(b[2])*256+uint64(b[3]); got != want {
			fail("Uint32 %x", b[:4])
		}
		hi := uint64(b[0])*16777216 + uint64(b[1])*65536 + uint64(b[2])*256 + uint64(b[3])
		lo := uint64(b[4])*16777216 + uint64(b[5])*65536 + uint64(b[6])*256 + uint64(b[7])
		if binary.BigEndian.Uint64(b) != hi*4294967296+lo {
			fail("Uint64 %x", b[:8])
		}
		// PutUint16/32: the two/four octets, nothing else
		c := append([]byte{}, b...)
		v16 := uint16(rnd.Intn(65536))
		binary.BigEndian.PutUint16(c[2:], v16)
		if c[2] != byte(v16/256) || c[3] != byte(v16%256) || !bytes.Equal(c[:2], b[:2]) || !bytes.Equal(c[4:], b[4:]) {
			fail("PutUint16 %d", v16)
		}
		c = append([]byte{}, b...)
		v32 := rnd.Uint32()
		binary.BigEndian.PutUint32(c[1:], v32)
		if c[1] != byte(v32/16777216) || c[2] != byte((v32/65536)%256) || c[3] != byte((v32/256)%256) || c[4] != byte(v32%256) || c[0] != b[0] || !bytes.Equal(c[5:], b[5:]) {
			fail("PutUint32 %d", v32)
		}
		// FNV-1 32 over address ++ id: the explicit fold used by the fnv6/fnv18 specification
		for _, l := range []int{6, 18} {
			h := fnv.New32()
			h.Write(b[:l%len(b)])
			want := uint32(2166136261)
			for _, x := range b[:l%len(b)] {
				want = want*16777619 ^ uint32(x)
			}
			if h.Sum32() != want {
				fail("fnv-1 32 of %x", b[:l%len(b)])
			}
		}
		// net.IP.String depends on the octets only and is JSON-safe text
		ip4 := net.IP(append([]byte{}, b[:4]...))
		ip4b := net.IP(append([]byte{0, 0}, b[:4]...)[2:])
		if ip4.String() != ip4b.String() {
			fail("IP.String differs for equal octets")
		}
		ip16 := net.IP(append([]byte{}, append(b[:8], b[:8]...)...))
		for _, s := range []string{ip4.String(), ip16.String(), net.HardwareAddr(b[:6]).String(), hex.EncodeToString(b)} {
			if strings.ContainsAny(s, "\"\\") || strings.IndexFunc(s, func(r rune) bool { return r < 0x20 }) >= 0 {
				fail("text %q is not JSON-safe", s)
			}
		}
		// To4: 4-octet form of a 4-octet or IPv4-mapped address, nil otherwise
		if r := ip4.To4(); len(r) != 4 || !bytes.Equal(r, ip4) {
			fail("To4 of a 4-octet address")
		}
		mapped := net.IP(append([]byte{0, 0, 0, 0, 0, 0, 0, 0, 0, 0, 0xff, 0xff}, b[:4]...))
		if r := mapped.To4(); len(r) != 4 || !bytes.Equal(r, b[:4]) {
			fail("To4 of a mapped address")
		}
		// bytes.Reader: Read / Seek(relative) move the position as the ghost stream says
		rd := bytes.NewReader(b)
		k := rnd.Intn(len(b))
		p := make([]byte, k)
		if k > 0 {
			if m, err := io.ReadFull(rd, p); m != k || err != nil || !bytes.Equal(p, b[:k]) {
				fail("ReadFull")
			}
		}
		off := int64(rnd.Intn(64)) - 8
		pos0 := int64(len(b)) - int64(rd.Len())
		np, err := rd.Seek(off, 1)
		if pos0+off >= 0 && (err != nil || np != pos0+off) {
			fail("Seek(%d, 1) at %d: %d %v", off, pos0, np, err)
		}
		if pos0+off < 0 && err == nil {
			fail("Seek before start accepted")
		}
		var u32 uint32
		rd2 := bytes.NewReader(b)
		if err := binary.Read(rd2, binary.BigEndian, &u32); err != nil || u32 != binary.BigEndian.Uint32(b) || rd2.Len() != len(b)-4 {
			fail("binary.Read uint32")
		}
		rd3 := bytes.NewReader(b[:3])
		u32 = 77
		if err := binary.Read(rd3, binary.BigEndian, &u32); err == nil {
			fail("binary.Read on 3 octets succeeded")
		}
		// number formatting: a JSON number whose value is the argument
		i64 := int64(rnd.Uint64())
		if s := strconv.FormatInt(i64, 10); func() bool { x, e := strconv.ParseInt(s, 10, 64); return e != nil || x != i64 }() {
			fail("FormatInt")
		}
		u64 := rnd.Uint64()
		if it%50 == 0 {
			u64 = math.MaxUint64
		}
		if s := strconv.FormatUint(u64, 10); func() bool { x, e := strconv.ParseUint(s, 10, 64); return e != nil || x != u64 }() {
			fail("FormatUint")
		}
		// json.Marshal of a string: one complete, valid string literal
		str := string(b)
		if js, err := json.Marshal(str); err != nil || len(js) < 2 || js[0] != '"' || js[len(js)-1] != '"' || !json.Valid(js) {
			fail("json.Marshal(string)")
		}
		// Fprintf("%s\n", msg): exactly the octets and a newline, in one Write
		w := &shortWriter{}
		fmt.Fprintf(w, "%s\n", b)
		if w.writes != 1 || !bytes.Equal(w.buf.Bytes(), append(append([]byte{}, b...), '\n')) {
			fail("Fprintf %%s\\n: %d writes", w.writes)
		}
		// Float bits
		if math.Float32bits(math.Float32frombits(uint32(u64))) != uint32(u64) && !math.IsNaN(float64(math.Float32frombits(uint32(u64)))) {
			fail("Float32frombits")
		}
		// FormatFloat(f, 'E', -1, 32|64) of a finite value and FormatBool are JSON values (as the encoders write them)
		f64 := math.Float64frombits(u64)
		if !math.IsNaN(f64) && !math.IsInf(f64, 0) {
			if s := strconv.FormatFloat(f64, 'E', -1, 64); !json.Valid([]byte(s)) {
				fail("FormatFloat 64 %q", s)
			}
		}
		f32 := float64(math.Float32frombits(uint32(u64)))
		if !math.IsNaN(f32) && !math.IsInf(f32, 0) {
			if s := strconv.FormatFloat(f32, 'E', -1, 32); !json.Valid([]byte(s)) {
				fail("FormatFloat 32 %q", s)
			}
		}
		if !json.Valid([]byte(strconv.FormatBool(it%2 == 0))) {
			fail("FormatBool")
		}
		// math.IsNaN / IsInf agree with the bit patterns (exponent all ones; fraction zero or not)
		exp, frac := (u64>>52)&0x7ff, u64&(1<<52-1)
		if math.IsNaN(f64) != (exp == 0x7ff && frac != 0) || math.IsInf(f64, 0) != (exp == 0x7ff && frac == 0) {
			fail("IsNaN/IsInf of %x", u64)
		}
		// sort.Ints: sorted, same multiset
		xs := make([]int, rnd.Intn(12))
		sum := 0
		for i := range xs {
			xs[i] = rnd.Intn(70000)
			sum += xs[i]
		}
		ys := append([]int{}, xs...)
		sort.Ints(ys)
		for i := range ys {
			sum -= ys[i]
			if i > 0 && ys[i-1] > ys[i] {
				fail("sort.Ints not sorted")
			}
		}
		if sum != 0 || len(ys) != len(xs) {
			fail("sort.Ints changed the elements")
		}
		n++
	}
	// strings.Split / strconv.ParseUint as used by the filter option
	for _, s := range []string{"1", "1,2", "4097,2", "", "a,1", "4294967295", "4294967296"} {
		parts := strings.Split(s, ",")
		if strings.Join(parts, ",") != s {
			fail("Split/Join %q", s)
		}
		for _, q := range parts {
			v, err := strconv.ParseUint(q, 10, 32)
			if err == nil && (v > math.MaxUint32 || strconv.FormatUint(v, 10) != strings.TrimLeft(q, "+0") && q != "0") {
				fail("ParseUint %q = %d", q, v)
			}
		}
	}
	if len(bad) > 0 {
		fmt.Println("VRF-RESULT VIOLATED", strings.Join(bad, "; "))
	} else {
		fmt.Println("VRF-RESULT HOLDS", n, "rounds")
	}
}
