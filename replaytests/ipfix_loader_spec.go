package ipfix

// Replay witness for LoadExtElements (C20): the loader's specification checked at run time on the shipped
// file: after loading, the model consists exactly of the file's entries that have at least two properties,
// each keyed by (enterprise, id) with FieldID = id, Name = first property, Type = FieldTypes[second property].

import (
	"fmt"
	"io/ioutil"
	"testing"

	"gopkg.in/yaml.v2"
)

func TestVrfReplay(t *testing.T) {
	b, err := ioutil.ReadFile("../scripts/ipfix.elements")
	if err != nil {
		t.Skip(err)
	}
	var ext map[uint32]map[uint16][]string
	if err := yaml.Unmarshal(b, &ext); err != nil {
		t.Skip(err)
	}
	saved := InfoModel
	defer func() { InfoModel = saved }()
	if err := LoadExtElements("../scripts"); err != nil {
		fmt.Println("VRF-RESULT VIOLATED LoadExtElements(../scripts) returned", err)
		return
	}
	want := 0
	for pen, els := range ext {
		for id, prop := range els {
			if len(prop) < 2 {
				continue
			}
			want++
			e, ok := InfoModel[ElementKey{pen, id}]
			exp := InfoElementEntry{FieldID: id, Name: prop[0], Type: FieldTypes[prop[1]]}
			if !ok || e != exp {
				fmt.Printf("VRF-RESULT VIOLATED input scripts/ipfix.elements: entry %d/%d %v is loaded as %v (present=%v), specified %v\n", pen, id, prop, e, ok, exp)
				return
			}
		}
	}
	if len(InfoModel) != want {
		fmt.Printf("VRF-RESULT VIOLATED input scripts/ipfix.elements: %d entries loaded, %d specified\n", len(InfoModel), want)
		return
	}
	fmt.Println("VRF-RESULT HOLDS")
}
