#!/usr/bin/env python3
"""Generates /verif/properties.map.json (property -> functions under contract, lemmas, notes)."""
import json
READER=["reader.*"]
IPFIX_DEC=["ipfix.NewDecoder","ipfix.Decoder.*","ipfix.MessageHeader.*","ipfix.SetHeader.*","ipfix.TemplateHeader.*","ipfix.TemplateFieldSpecifier.*","ipfix.TemplateRecord.*","ipfix.combineErrors","ipfix.Interpret","ipfix.FieldType.minLen"]
IPFIX_CACHE=["ipfix.MemCache.getShard","ipfix.MemCache.insert","ipfix.MemCache.retrieve","ipfix.MemCache.valid","ipfix.GetCache"]
IPFIX_JSON=["ipfix.Message.*"]
V9_DEC=["netflow.v9.NewDecoder","netflow.v9.Decoder.*","netflow.v9.PacketHeader.*","netflow.v9.SetHeader.*","netflow.v9.TemplateHeader.*","netflow.v9.TemplateFieldSpecifier.*","netflow.v9.TemplateRecord.*","netflow.v9.combineErrors"]
V9_CACHE=["netflow.v9.MemCache.getShard","netflow.v9.MemCache.insert","netflow.v9.MemCache.retrieve","netflow.v9.MemCache.valid","netflow.v9.GetCache"]
V9_JSON=["netflow.v9.Message.*"]
V5_DEC=["netflow.v5.NewDecoder","netflow.v5.Decoder.*","netflow.v5.PacketHeader.*","netflow.v5.FlowRecord.*","netflow.v5.combineErrors"]
V5_JSON=["netflow.v5.Message.*"]
SFLOW=["sflow.*"]
PACKET=["packet.*"]
WORKERS=["vflow.IPFIX.ipfixWorker","vflow.NetflowV9.netflowV9Worker","vflow.NetflowV5.netflowV5Worker","vflow.SFlow.sFlowWorker"]
RUNS=["vflow.IPFIX.run","vflow.NetflowV9.run","vflow.NetflowV5.run","vflow.SFlow.run"]
A_COMMON=["A4 int is 64-bit","A7 slice value semantics (no aliasing through spare capacity)","A6 distinct access paths of pointer type denote distinct objects"]
A5="A5 a received datagram has at most 65535 octets (assumed contract of net.UDPConn.ReadFromUDP)"
A_OPTS="options (opts.*) are not modified after start-up"
props=[
 {"id":"C19","level":"proof","funcs":READER,"lemmas":["accounting"],"assumptions":A_COMMON,
  "note":"Every reader operation is proved against a total contract taken from the property statement (requires only the representation invariant inv(r)); operation sequences are covered because each operation preserves inv."},
 {"id":"C08","level":"proof","funcs":V5_DEC+V5_JSON+READER,"assumptions":A_COMMON,
  "note":"Decode is proved against specHdr/specFlow written from the record layout: valid(B) ==> header and exactly Count flows equal the big-endian wire values in order; !valid(B) ==> no flows."},
 {"id":"C09","level":"proof","funcs":IPFIX_DEC+IPFIX_CACHE[:3]+V9_DEC+V9_CACHE[:3]+READER,
  "assumptions":A_COMMON+[A5,"retrieve's result is the abstract view cacheHas/cacheGet (trusted postcondition; its relation to the shard maps is C04)","the two relational corollaries (insertion of an undecodable set, truncation prefix) are written lemmas over the mechanised per-function contracts (DESIGN.md §4 C09)"],
  "note":"decodeSet: exact advance by the declared set length on nil/non-fatal error (IPFIX; v9: at least the declared length), fatal error otherwise and Decode then returns nil; earlier records are never altered (kept), reserved/unknown-template/template sets add no records."},
 {"id":"C20","level":"proof","funcs":[],"grounds":["infomodel"],
  "assumptions":["scripts/ipfix.elements is parsed with gopkg.in/yaml.v2 v2.3.0 inside the tool, and the loader's specification (entries with at least two properties, type looked up in FieldTypes) is applied by the tool","LoadExtElements' loop itself is not yet under contract"],
  "note":"Exhaustive over the finite tables: one ground obligation group per entry of the InfoModel composite literal (from the AST) and per entry of scripts/ipfix.elements."},
 {"id":"C01","level":"proof","funcs":READER+IPFIX_DEC+IPFIX_CACHE+IPFIX_JSON+V9_DEC+V9_CACHE+V9_JSON+V5_DEC+V5_JSON+SFLOW+PACKET+WORKERS+RUNS,
  "assumptions":A_COMMON+[A5,A_OPTS,"binary.Read is an intrinsic of the verifier (big-endian, all-or-error) and sflow.read is checked to be a plain wrapper of it","io.Reader/io.ReadSeeker values in package sflow are *bytes.Reader (ghost stream model)","encoding/json.Marshal does not panic on the sFlow datagram (assumed library contract)","goroutine bodies started with `go func(){...}` inside run() are not part of the proof; channel and pool invariants are checked at every send/Put and assumed at every receive/Get"],
  "note":"Implicit no-panic obligations (index, slice, nil dereference, nil map, type assertion, make, division, explicit panic) at every site of every function on the four receive->decode->encode paths, under contracts that admit any datagram up to 65535 octets, any source address and any well-formed template cache with arbitrary templates in it."},
 {"id":"C02","level":"proof","funcs":READER+IPFIX_DEC+IPFIX_CACHE+IPFIX_JSON+V9_DEC+V9_CACHE+V9_JSON+V5_DEC+V5_JSON+SFLOW+PACKET,
  "assumptions":A_COMMON+[A5,"allocation by append of one element per loop iteration is bounded through the iteration bounds (records <= octets); copying an existing slice is bounded by memory that already exists","the size of the JSON text is proportional to the number of decoded fields, which a cached template determines (a template with many zero-length fields amplifies; noted in DESIGN.md)"],
  "note":"Every loop carries a decreases clause (var.dec/var.bound); decodeSet/Decode/SFDecode prove records <= octets consumed; every make() with a dynamic size is bounded by a constant (alloc.bound)."},
 {"id":"C07","level":"proof","funcs":SFLOW+PACKET,
  "assumptions":A_COMMON+["binary.Read intrinsic and ghost stream model as in C01","fmt.Sprintf of the MAC format and net.IP.String are specified by uninterpreted text functions (macText, ipText)","the whole-datagram statement (all samples in wire order) is the composition of the per-function and per-iteration contracts; the composition is a written argument"],
  "note":"Field-for-field contracts written from the sFlow v5 structure definitions and the RFC header layouts for every unmarshal/decode function of packages sflow and packet."},
 {"id":"C05","level":"proof","funcs":IPFIX_JSON+V9_JSON+V5_JSON+WORKERS+["ipfix.Decoder.Decode","netflow.v9.Decoder.Decode","netflow.v5.Decoder.Decode"],"grounds":["jsonshape"],
  "assumptions":A_COMMON+["the JSON recogniser inside govc (json.go) is the definition of 'syntactically valid JSON'; literal bare tokens (null) are not grammar-checked","strconv.FormatInt/FormatUint/FormatBool produce a JSON number/literal whose value is the argument, strconv.FormatFloat produces a JSON number for finite values, net.IP.String / net.HardwareAddr.String / hex.EncodeToString produce JSON-safe text, json.Marshal of a string yields a complete, correctly escaped string literal (assumed library contracts)","sFlow: encoding/json.Marshal returns valid JSON or an error (trusted); the check on our side is that every struct type reachable from the datagram is encodable (ground obligations)","faithfulness is decided per slot (the value written under each literal key, and the V value per dynamic type); numbers are compared as mathematical integers through numval"],
  "note":"Ghost pushdown JSON recogniser state on every bytes.Buffer: each literal write is run through the recogniser character by character and must be legal (json.legal), each dynamic write must be a number / JSON-safe string content / complete string literal in the right position (json.payload), the value written under each literal key must equal the decoded field (json.slot), and JSONMarshal must end in the document-complete state."},
 {"id":"C10","level":"other","funcs":IPFIX_CACHE+V9_CACHE+["ipfix.MemCache.Dump","netflow.v9.MemCache.Dump","ipfix.MemCache.allSetIds","ipfix.IRPC.Get","ipfix.NewRPC"],"grounds":["guarded"],
  "assumptions":A_COMMON+["A8(i) lock-invariant rule (not mechanised): if every access to a location happens inside a critical section of the lock that protects it, the location is free of data races and each critical section is atomic","deadlock freedom: every critical section holds a single lock (lock.order obligations), Dump acquires all shard locks in slice order and nothing else acquires two","stored templates are values; their slices are not written after insert (no element assignment to FieldSpecifiers anywhere: checked by the frame obligations of the functions under contract)","'no data race' is claimed for the template caches only, not for i.stop, ipfixMirrorEnabled or the stats counters"],
  "note":"Mechanised: lock.held obligations at every read/write of TemplatesShard.Templates (both packages) and at json.Marshal's reflective walk in Dump, lock.order and released-at-return obligations, and the completeness check that every function touching the map is under these contracts. Not mechanised: the step from per-critical-section proofs to all interleavings (A8)."},
 {"id":"C11","level":"proof","funcs":IPFIX_CACHE+V9_CACHE+["ipfix.MemCache.Dump","netflow.v9.MemCache.Dump"],"grounds":["cachetypes"],
  "assumptions":A_COMMON+["json.Unmarshal may leave any value of the target type behind, whatever it returns (havoc contract: covers prefixes left by a crash, corruptions and hand edits)","round trip: encoding/json round-trips values whose types have only exported integer/slice/struct/pointer fields and integer-keyed maps (trusted); the type-shape conditions are ground obligations on memCacheDisk","a strict prefix of the saved JSON document is rejected by json.Unmarshal (trusted), after which GetCache returns the fresh empty cache"],
  "note":"GetCache is proved to return a cache that satisfies the representation invariant every lookup needs (32 non-nil shards with non-nil maps) for every file content, and to return either the decoded cache or a fresh empty one; valid() is proved to imply the invariant."},
 {"id":"C18","level":"proof","funcs":["sflow.SFDecoder.*","sflow.NewSFDecoder","vflow.SFlow.sFlowWorker"],
  "assumptions":A_COMMON+["the relational reading (same output as without the filter) is a written lemma over the per-iteration contract of SFDecode"],
  "note":"isFilterMatch is proved to be membership in the filter list; SFDecode's loop skips a matching sample by its declared length and treats every other sample without consulting the filter."},
]
json.dump(props,open('/verif/properties.map.json','w'),indent=1)
print(len(props),'properties mapped')
