#!/usr/bin/env python3
"""seedtool.py validate <seed-dir>   : confirm a seeded change in a scratch worktree (builds, suite passes, demo fails with / passes without)
   seedtool.py check <seed-dir> <property>... : apply the patch to /repo, run the quick checks, undo, report which checks raise a VIOLATION
Scratch worktrees live under /tmp and are removed afterwards."""
import json, os, re, subprocess, sys, tempfile, shutil
ENV = dict(os.environ, GOFLAGS='-mod=mod', GOPROXY='off', GOSUMDB='off', GOTOOLCHAIN='local')
PKGDIR = {'reader': 'reader', 'ipfix': 'ipfix', 'netflow5': 'netflow/v5', 'netflow9': 'netflow/v9', 'sflow': 'sflow', 'packet': 'packet', 'mirror': 'mirror', 'producer': 'producer', 'main': 'vflow'}
SUITE = ['./ipfix/...', './mirror/...', './netflow/...', './packet/...', './producer/...', './reader/...', './sflow/...', './stress/...']

def sh(cmd, cwd, timeout=600):
    p = subprocess.run(cmd, cwd=cwd, env=ENV, shell=isinstance(cmd, str), capture_output=True, text=True, timeout=timeout)
    return p.returncode, p.stdout + p.stderr

def demo_info(seed):
    demos = [f for f in os.listdir(seed) if f.endswith('_test.go')]
    if not demos:
        return None, None
    src = open(os.path.join(seed, demos[0])).read()
    pkg = re.search(r'^package\s+(\w+)', src, re.M).group(1)
    meta = os.path.join(seed, 'meta.json')
    if os.path.exists(meta):
        m = json.load(open(meta))
        if m.get('demo_dir'):
            return demos[0], m['demo_dir']
    return demos[0], PKGDIR.get(pkg.replace('_test', ''), pkg)

def validate(seed):
    seed = os.path.abspath(seed)
    wt = tempfile.mkdtemp(prefix='seedwt_', dir='/tmp')
    os.rmdir(wt)
    res = {}
    try:
        rc, out = sh(['git', '-C', '/repo', 'worktree', 'add', '--detach', wt, 'HEAD'], '/repo')
        assert rc == 0, out
        demo, ddir = demo_info(seed)
        shutil.copy(os.path.join(seed, demo), os.path.join(wt, ddir, 'zz_seed_demo_test.go'))
        run = '^(' + '|'.join(re.findall(r'^func (Test\w+)', open(os.path.join(seed, demo)).read(), re.M)) + ')$'
        flags = []
        mp = os.path.join(seed, 'meta.json')
        if os.path.exists(mp):
            flags = json.load(open(mp)).get('demo_flags', [])
        democmd = ['go', 'test', '-vet=off', '-count=1', '-timeout', '300s'] + flags + ['-run', run, './' + ddir]
        rc, out = sh(democmd, wt)
        res['demo_without_change'] = 'pass' if rc == 0 else 'FAIL'
        res['demo_without_out'] = out[-600:]
        rc, out = sh(['git', 'apply', os.path.join(seed, 'patch.diff')], wt)
        res['apply'] = 'ok' if rc == 0 else 'FAIL ' + out
        rc, out = sh('go build ./... ', wt)
        res['build'] = 'ok' if rc == 0 else 'FAIL ' + out[-400:]
        rc, out = sh(democmd, wt)
        res['demo_with_change'] = 'fail' if rc != 0 else 'PASSES(bad)'
        res['demo_with_out'] = out[-600:]
        os.remove(os.path.join(wt, ddir, 'zz_seed_demo_test.go'))
        rc, out = sh(['go', 'test', '-vet=off', '-count=1', '-timeout', '600s'] + SUITE, wt, timeout=900)
        res['suite_with_change'] = 'pass' if rc == 0 else 'FAIL ' + out[-600:]
    finally:
        sh(['git', '-C', '/repo', 'worktree', 'remove', '--force', wt], '/repo')
        shutil.rmtree(wt, ignore_errors=True)
    res['valid'] = (res.get('demo_without_change') == 'pass' and res.get('apply') == 'ok' and res.get('build') == 'ok' and res.get('demo_with_change') == 'fail' and res.get('suite_with_change') == 'pass')
    return res

def check(seed, props):
    seed = os.path.abspath(seed)
    rc, out = sh(['git', 'status', '--porcelain'], '/repo')
    assert out.strip() == '', '/repo is dirty: ' + out
    rc, out = sh(['git', 'apply', os.path.join(seed, 'patch.diff')], '/repo')
    assert rc == 0, out
    res = {}
    try:
        for p in props:
            rc, out = sh(['/verif/bin/check', p, 'quick'], '/verif', timeout=1200)
            viol = [l for l in out.splitlines() if l.startswith('VIOLATION')]
            res[p] = {'exit': rc, 'violations': viol[:6], 'n': len(viol)}
    finally:
        sh(['git', 'checkout', '--', '.'], '/repo')
        sh(['git', 'clean', '-fdq'], '/repo')
    return res

if __name__ == '__main__':
    if sys.argv[1] == 'validate':
        r = validate(sys.argv[2])
        print(json.dumps(r, indent=1))
        sys.exit(0 if r['valid'] else 1)
    if sys.argv[1] == 'check':
        r = check(sys.argv[2], sys.argv[3:])
        print(json.dumps(r, indent=1))
