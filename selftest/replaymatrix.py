#!/usr/bin/env python3
"""replaymatrix.py [-j N] [seed ...]: for every seeded change, run the quick check of the property it was written
against on a scratch worktree with the change applied — including the replay of every counterexample on the changed
code — and record how each failed obligation ended: confirmed (the real code returns what the counter-model says),
candidate, not-reproduced, no model (translate failures, timeouts, quantified goals). Writes /verif/seeded/REPLAYS.json.
The run is pinned to the commit, binary and contract files at its start; scratch trees are removed."""
import json, os, re, subprocess, sys, tempfile, shutil, concurrent.futures as cf
sys.path.insert(0, os.path.dirname(os.path.abspath(__file__)))
import seedmatrix as sm

def run_seed(seed):
    own = seed.split('_')[0]
    sd = os.path.join('/verif/seeded', seed)
    wt = tempfile.mkdtemp(prefix='rp_wt_', dir='/tmp'); os.rmdir(wt)
    vd = tempfile.mkdtemp(prefix='rp_vf_', dir='/tmp')
    res = {'property': own}
    try:
        rc, out = sm.sh(['git', '-C', '/repo', 'worktree', 'add', '--detach', wt, sm.PIN['commit']])
        assert rc == 0, out
        rc, out = sm.sh(['git', 'apply', os.path.join(sd, 'patch.diff')], cwd=wt)
        if rc != 0:
            return seed, {'error': 'patch does not apply: ' + out[-200:]}
        for f in ['contracts', 'properties.map.json', 'known_findings.json', 'replaytests', 'MANIFEST.json']:
            src = os.path.join(sm.PIN['verif'], f)
            (shutil.copytree if os.path.isdir(src) else shutil.copy)(src, os.path.join(vd, f))
        rc, out = sm.sh([sm.PIN['govc'], '-property', own, '-tier', 'quick', '-verif', vd, '-repo', wt])
        res['exit'] = rc
        verdicts = {}
        for l in out.splitlines():
            m = re.match(r'\s*failed obligation (\S+) \[(\w+)\].*? — replay ([\w-]+)', l)
            if m:
                verdicts[m.group(3)] = verdicts.get(m.group(3), 0) + 1
                continue
            m = re.match(r'\s*failed obligation (\S+) \[(\w+)\]', l)
            if m:
                verdicts['no-replay:' + m.group(2)] = verdicts.get('no-replay:' + m.group(2), 0) + 1
            elif re.match(r'\s*(translate|contract) failure', l) or 'translate:' in l:
                verdicts['translate'] = verdicts.get('translate', 0) + 1
        res['verdicts'] = verdicts
        vl = [l for l in out.splitlines() if l.startswith('VIOLATION ')]
        res['violation_line'] = vl[0].replace(vd, '/verif') if vl else ''
        res['with_failing_input'] = bool(vl) and not vl[0].rstrip().endswith('no-failing-input-found')
        if not vl and rc != 0:
            res['tail'] = out[-400:]
    finally:
        sm.sh(['git', '-C', '/repo', 'worktree', 'remove', '--force', wt])
        shutil.rmtree(wt, ignore_errors=True); shutil.rmtree(vd, ignore_errors=True)
    return seed, res

if __name__ == '__main__':
    args = sys.argv[1:]; j = 3
    if args[:1] == ['-j']: j = int(args[1]); args = args[2:]
    seeds = args or sorted(d for d in os.listdir('/verif/seeded') if os.path.isdir(os.path.join('/verif/seeded', d)))
    pindir = sm.pin()
    for f in ['replaytests', 'MANIFEST.json']:
        src = os.path.join('/verif', f)
        (shutil.copytree if os.path.isdir(src) else shutil.copy)(src, os.path.join(pindir, f))
    path = '/verif/seeded/REPLAYS.json'
    allres = json.load(open(path)) if os.path.exists(path) else {}
    with cf.ThreadPoolExecutor(j) as ex:
        for seed, res in ex.map(run_seed, seeds):
            allres[seed] = res
            print(seed, res.get('exit'), 'failing-input' if res.get('with_failing_input') else 'no-input', res.get('verdicts'), flush=True)
            json.dump(allres, open(path, 'w'), indent=1, sort_keys=True)
    shutil.rmtree(pindir, ignore_errors=True)
    n = sum(1 for r in allres.values() if r.get('exit') == 1)
    k = sum(1 for r in allres.values() if r.get('with_failing_input'))
    print('%d seeds reported by their own check, %d of them with a failing input replayed on the changed code' % (n, k))
