#!/usr/bin/env python3
"""seedmatrix.py [-j N] [-all] [-p props] [seed ...]: for every seeded change, apply it to a scratch worktree of /repo,
run the quick check of the seed's own property and of every claimed property that has functions in a touched package
(-all: every claimed property) against that worktree (govc -repo <wt>), and record which checks report a VIOLATION.
Writes /verif/seeded/MATRIX.json. Scratch worktrees and verif copies live under /tmp and are removed."""
import json, os, subprocess, sys, tempfile, shutil, concurrent.futures as cf
sys.path.insert(0, os.path.dirname(os.path.abspath(__file__)))
from benignmatrix import relevant
ENV = dict(os.environ, GOFLAGS='-mod=mod', GOPROXY='off', GOSUMDB='off', GOTOOLCHAIN='local')
def sh(cmd, cwd=None, timeout=1800):
    p = subprocess.run(cmd, cwd=cwd, env=ENV, capture_output=True, text=True, timeout=timeout)
    return p.returncode, p.stdout + p.stderr
def run_seed(seed, props):
    sd = os.path.join('/verif/seeded', seed)
    wt = tempfile.mkdtemp(prefix='mx_wt_', dir='/tmp'); os.rmdir(wt)
    vd = tempfile.mkdtemp(prefix='mx_vf_', dir='/tmp')
    res = {}
    try:
        rc, out = sh(['git', '-C', '/repo', 'worktree', 'add', '--detach', wt, 'HEAD'])
        assert rc == 0, out
        rc, out = sh(['git', 'apply', os.path.join(sd, 'patch.diff')], cwd=wt)
        if rc != 0:
            return seed, {'error': 'patch does not apply: ' + out[-200:]}
        for f in ['contracts', 'properties.map.json', 'known_findings.json']:
            src = os.path.join('/verif', f)
            (shutil.copytree if os.path.isdir(src) else shutil.copy)(src, os.path.join(vd, f))
        own = seed.split('_')[0]
        todo = props if ALL else [p for p in props if p == own or p in relevant(os.path.join(sd, 'patch.diff'), props, False)]
        for p in todo:
            rc, out = sh(['/verif/bin/govc', '-property', p, '-tier', 'quick', '-verif', vd, '-repo', wt])
            viol = [l for l in out.splitlines() if l.startswith('VIOLATION')]
            confirmed = [l for l in viol if 'no-failing-input-found' not in l]
            failed = [l.strip()[:220] for l in out.splitlines() if l.strip().startswith('failed obligation') or l.strip().startswith('translate failure')]
            res[p] = {'exit': rc, 'violations': len(viol), 'with_replayed_input': len(confirmed), 'first': failed[:3]}
            if rc not in (0, 1): res[p]['tail'] = out[-600:]
    finally:
        sh(['git', '-C', '/repo', 'worktree', 'remove', '--force', wt])
        shutil.rmtree(wt, ignore_errors=True); shutil.rmtree(vd, ignore_errors=True)
    return seed, res
ALL = False
if __name__ == '__main__':
    args = sys.argv[1:]; j = 2
    if args[:1] == ['-j']: j = int(args[1]); args = args[2:]
    if args[:1] == ['-all']: ALL = True; args = args[1:]
    seeds = args or sorted(d for d in os.listdir('/verif/seeded') if os.path.isdir(os.path.join('/verif/seeded', d)))
    props = [c['property_id'] for c in json.load(open('/verif/MANIFEST.json'))['checks']]
    if args[:1] == ['-p']: props = args[1].split(','); args = args[2:]; seeds = args or seeds
    mpath = '/verif/seeded/MATRIX.json'
    matrix = json.load(open(mpath)) if os.path.exists(mpath) else {}
    with cf.ThreadPoolExecutor(j) as ex:
        for seed, res in ex.map(lambda s: run_seed(s, props), seeds):
            matrix[seed] = res
            own = seed.split('_')[0]
            caught = [p for p, r in res.items() if isinstance(r, dict) and r.get('exit') == 1]
            print(seed, 'caught by', caught or 'NONE', '(own property %s)' % ('caught' if own in caught else 'not claimed' if own not in props else 'MISSED'), flush=True)
            json.dump(matrix, open(mpath, 'w'), indent=1, sort_keys=True)
