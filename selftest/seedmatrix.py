#!/usr/bin/env python3
"""seedmatrix.py [-j N] [-all] [-p props] [seed ...]: for every seeded change, apply it to a scratch worktree of /repo,
check every obligation of every claimed property against that worktree (one `govc -multi` run over the union of
the properties' functions; a failed obligation counts for every property whose map entry covers its function), and
record which properties' checks fail. Replays are not run here (bin/check <id> on the patched tree does that).
Writes /verif/seeded/MATRIX.json. Scratch worktrees and verif copies live under /tmp and are removed."""
import json, os, subprocess, sys, tempfile, shutil, concurrent.futures as cf
sys.path.insert(0, os.path.dirname(os.path.abspath(__file__)))
from benignmatrix import relevant
ENV = dict(os.environ, GOFLAGS='-mod=mod', GOPROXY='off', GOSUMDB='off', GOTOOLCHAIN='local')
def sh(cmd, cwd=None, timeout=1800):
    p = subprocess.run(cmd, cwd=cwd, env=ENV, capture_output=True, text=True, timeout=timeout)
    return p.returncode, p.stdout + p.stderr
def run_seed(seed, props):
    sd = os.path.join('/verif/seeded', seed)
    wt = tempfile.mkdtemp(prefix='mx_wt_', dir='/tmp'); os.rmdir(wt)
    vd = tempfile.mkdtemp(prefix='mx_vf_', dir='/tmp')
    res = {}
    try:
        rc, out = sh(['git', '-C', '/repo', 'worktree', 'add', '--detach', wt, PIN['commit']])
        assert rc == 0, out
        rc, out = sh(['git', 'apply', os.path.join(sd, 'patch.diff')], cwd=wt)
        if rc != 0:
            return seed, {'error': 'patch does not apply: ' + out[-200:]}
        for f in ['contracts', 'properties.map.json', 'known_findings.json']:
            src = os.path.join(PIN['verif'], f)
            (shutil.copytree if os.path.isdir(src) else shutil.copy)(src, os.path.join(vd, f))
        import re
        rc, out = sh([PIN['govc'], '-multi', ','.join(props), '-verif', vd, '-repo', wt])
        got = False
        for l in out.splitlines():
            m = re.match(r'MULTI (C\d\d) violations=(\d+) ?(.*)', l)
            if m:
                got = True
                n = int(m.group(2))
                res[m.group(1)] = {'exit': 1 if n else 0, 'violations': n, 'first': [m.group(3)[:300]] if n else []}
        if not got:
            res['run'] = {'exit': rc if rc else 2, 'tail': out[-600:]}
    finally:
        sh(['git', '-C', '/repo', 'worktree', 'remove', '--force', wt])
        shutil.rmtree(wt, ignore_errors=True); shutil.rmtree(vd, ignore_errors=True)
    return seed, res
ALL = False
PIN = {}
def pin(govc='/verif/bin/govc'):
    """the run is made against the state at its start: later commits, rebuilt binaries and edited contract files do not leak in"""
    d = tempfile.mkdtemp(prefix='pin_', dir='/tmp')
    PIN['commit'] = subprocess.run(['git', '-C', '/repo', 'rev-parse', 'HEAD'], capture_output=True, text=True).stdout.strip()
    shutil.copy(govc, os.path.join(d, 'govc')); PIN['govc'] = os.path.join(d, 'govc')
    for f in ['contracts', 'properties.map.json', 'known_findings.json']:
        src = os.path.join('/verif', f)
        (shutil.copytree if os.path.isdir(src) else shutil.copy)(src, os.path.join(d, f))
    PIN['verif'] = d
    return d
if __name__ == '__main__':
    args = sys.argv[1:]; j = 2
    if args[:1] == ['-j']: j = int(args[1]); args = args[2:]
    if args[:1] == ['-all']: ALL = True; args = args[1:]
    seeds = args or sorted(d for d in os.listdir('/verif/seeded') if os.path.isdir(os.path.join('/verif/seeded', d)))
    props = [c['property_id'] for c in json.load(open('/verif/MANIFEST.json'))['checks']]
    if args[:1] == ['-p']: props = args[1].split(','); args = args[2:]; seeds = args or seeds
    pindir = pin()
    mpath = '/verif/seeded/MATRIX.json'
    matrix = json.load(open(mpath)) if os.path.exists(mpath) else {}
    with cf.ThreadPoolExecutor(j) as ex:
        for seed, res in ex.map(lambda s: run_seed(s, props), seeds):
            matrix[seed] = res
            own = seed.split('_')[0]
            caught = [p for p, r in res.items() if isinstance(r, dict) and r.get('exit') == 1]
            print(seed, 'caught by', caught or 'NONE', '(own property %s)' % ('caught' if own in caught else 'not claimed' if own not in props else 'MISSED'), flush=True)
            json.dump(matrix, open(mpath, 'w'), indent=1, sort_keys=True)
    shutil.rmtree(pindir, ignore_errors=True)
