#!/usr/bin/env python3
"""benignmatrix.py [-j N] [-bin govc] [-all] [patch.diff ...]: false-alarm regression. Every patch under
/verif/selftest/benign/ (behaviour-preserving edits written by independent sub-agents: renames, reordered
independent statements, extracted helpers, restructured conditions, changed messages) is applied to a scratch
worktree of /repo and the quick check of every property whose functions live in a touched package is run against it
(-all: every property). Any VIOLATION is a false alarm of the machinery. Writes selftest/benign/RESULTS.json."""
import json, os, re, subprocess, sys, tempfile, shutil, glob, concurrent.futures as cf
ENV = dict(os.environ, GOFLAGS='-mod=mod', GOPROXY='off', GOSUMDB='off', GOTOOLCHAIN='local')
BD = '/verif/selftest/benign'
def sh(cmd, cwd=None, timeout=1800):
    p = subprocess.run(cmd, cwd=cwd, env=ENV, capture_output=True, text=True, timeout=timeout)
    return p.returncode, p.stdout + p.stderr
PM = json.load(open('/verif/properties.map.json'))
GROUND_PKGS = {'infomodel': ['ipfix'], 'jsonshape': ['sflow'], 'options': ['vflow'], 'fnvkey': ['ipfix', 'netflow.v9'], 'cachetypes': ['ipfix', 'netflow.v9'], 'guarded': ['ipfix', 'netflow.v9']}
PKGS = ['netflow.v9', 'netflow.v5', 'reader', 'ipfix', 'sflow', 'packet', 'vflow', 'producer', 'mirror']
def prop_pkgs(p):
    out = set()
    for f in p.get('funcs', []):
        for k in PKGS:
            if f.startswith(k + '.'):
                out.add(k)
    for g in p.get('grounds', []):
        out.update(GROUND_PKGS.get(g, []))
    return out
def relevant(patch, claimed, allp):
    if allp:
        return claimed
    touched = set()
    for f in re.findall(r'^\+\+\+ b/(\S+)', open(patch).read(), re.M):
        d = os.path.dirname(f).replace('/', '.')
        touched.add(d)
    props = PM['properties'] if isinstance(PM, dict) and 'properties' in PM else PM
    out = []
    for p in props:
        if p['id'] in claimed and prop_pkgs(p) & touched:
            out.append(p['id'])
    return out
def run_patch(patch, govc, claimed, allp):
    wt = tempfile.mkdtemp(prefix='bn_wt_', dir='/tmp'); os.rmdir(wt)
    vd = tempfile.mkdtemp(prefix='bn_vf_', dir='/tmp')
    res = {}
    try:
        rc, out = sh(['git', '-C', '/repo', 'worktree', 'add', '--detach', wt, PIN['commit']])
        assert rc == 0, out
        rc, out = sh(['git', 'apply', patch], cwd=wt)
        if rc != 0:
            return patch, {'error': 'patch does not apply: ' + out[-200:]}
        for f in ['contracts', 'properties.map.json', 'known_findings.json']:
            src = os.path.join(PIN['verif'], f)
            (shutil.copytree if os.path.isdir(src) else shutil.copy)(src, os.path.join(vd, f))
        # one run over the union of the functions of all claimed properties; a failure is attributed to every
        # property whose map entry covers the function (govc -multi)
        rc, out = sh([PIN['govc'], '-multi', ','.join(claimed), '-verif', vd, '-repo', wt])
        got = False
        for l in out.splitlines():
            m = re.match(r'MULTI (C\d\d) violations=(\d+) ?(.*)', l)
            if m:
                got = True
                n = int(m.group(2))
                res[m.group(1)] = {'exit': 1 if n else 0, 'first': [m.group(3)[:300]] if n else []}
        if not got:
            res['run'] = {'exit': rc if rc else 2, 'tail': out[-600:]}
    finally:
        sh(['git', '-C', '/repo', 'worktree', 'remove', '--force', wt])
        shutil.rmtree(wt, ignore_errors=True); shutil.rmtree(vd, ignore_errors=True)
    return patch, res
PIN = {}
def pin(govc='/verif/bin/govc'):
    """the run is made against the state at its start: later commits, rebuilt binaries and edited contract files do not leak in"""
    d = tempfile.mkdtemp(prefix='pin_', dir='/tmp')
    PIN['commit'] = subprocess.run(['git', '-C', '/repo', 'rev-parse', 'HEAD'], capture_output=True, text=True).stdout.strip()
    shutil.copy(govc, os.path.join(d, 'govc')); PIN['govc'] = os.path.join(d, 'govc')
    for f in ['contracts', 'properties.map.json', 'known_findings.json']:
        src = os.path.join('/verif', f)
        (shutil.copytree if os.path.isdir(src) else shutil.copy)(src, os.path.join(d, f))
    PIN['verif'] = d
    return d
if __name__ == '__main__':
    args = sys.argv[1:]; j = 3; govc = '/verif/bin/govc'; allp = False
    while args and args[0].startswith('-'):
        if args[0] == '-j': j = int(args[1]); args = args[2:]
        elif args[0] == '-bin': govc = args[1]; args = args[2:]
        elif args[0] == '-all': allp = True; args = args[1:]
        else: break
    patches = args or sorted(p for p in glob.glob(BD + '/*/*.diff') if '/excluded/' not in p)
    pindir = pin(govc)
    claimed = [c['property_id'] for c in json.load(open('/verif/MANIFEST.json'))['checks']]
    rpath = BD + '/RESULTS.json'
    results = json.load(open(rpath)) if os.path.exists(rpath) else {}
    alarms = 0
    expected = json.load(open(BD + '/EXPECTED_ALARMS.json')) if os.path.exists(BD + '/EXPECTED_ALARMS.json') else {}
    with cf.ThreadPoolExecutor(j) as ex:
        for patch, res in ex.map(lambda s: run_patch(s, govc, claimed, allp), patches):
            key = os.path.relpath(patch, BD) if patch.startswith(BD) else patch
            results[key] = res
            bad = [p for p, r in res.items() if isinstance(r, dict) and r.get('exit') != 0]
            if key in expected:
                print(key, 'EXPECTED ALARM (documented limitation)' if bad else 'quiet (limitation no longer applies)', bad, '-', expected[key][:100], flush=True)
                json.dump(results, open(rpath, 'w'), indent=1, sort_keys=True)
                continue
            alarms += len(bad)
            print(key, 'checked', sorted(res), 'FALSE ALARMS' if bad else 'quiet', bad, flush=True)
            for p in bad:
                for l in res[p].get('first', []): print('    ', p, l)
                if 'tail' in res[p]: print('    ', p, res[p]['tail'][-300:])
            json.dump(results, open(rpath, 'w'), indent=1, sort_keys=True)
    shutil.rmtree(pindir, ignore_errors=True)
    sys.exit(1 if alarms else 0)
