#!/bin/sh
# usage: modelvals.sh '<funcs>' '<obligation name>'  : prints the scalar constants of a counter-model (development aid)
/verif/bin/govc -funcs "$1" -dump "$2" 2>/dev/null > /tmp/mv_q.smt2
n=$(grep -n "^(check-sat" /tmp/mv_q.smt2 | head -1 | cut -d: -f1)
head -$((n-1)) /tmp/mv_q.smt2 > /tmp/mv_q2.smt2; echo "(check-sat)(get-model)" >> /tmp/mv_q2.smt2
z3-new -T:30 /tmp/mv_q2.smt2 > /tmp/mv_m.txt
python3 - <<'PY'
import re
s=open('/tmp/mv_m.txt').read()
print(s.split('\n')[0])
vals={}
for m in re.finditer(r'\(define-fun (\S+) \(\) (Int|Bool|Any)\s+([^\n]*)\)\n', s):
    vals[m.group(1)]=m.group(3)
def key(k):
    m=re.search(r'_(\d+)$',k); return int(m.group(1)) if m else 0
print('; '.join(f"{k}={vals[k]}" for k in sorted(vals,key=key) if not vals[k].startswith('(- 92233')))
PY
