#!/usr/bin/env python3
"""genmeta.py: (re)write /verif/seeded/<seed>/meta.json from the seed's notes.md and seeded/MATRIX.json.
Keys kept from an existing meta.json: demo_flags. Everything else is regenerated."""
import json, os, re
SD = '/verif/seeded'
mx = json.load(open(os.path.join(SD, 'MATRIX.json'))) if os.path.exists(os.path.join(SD, 'MATRIX.json')) else {}
def section(text, *names):
    for n in names:
        m = re.search(r'^##+\s*' + n + r'[^\n]*\n(.*?)(?=^##+\s|\Z)', text, re.S | re.M | re.I)
        if m:
            return ' '.join(m.group(1).split())
    return ''
for seed in sorted(os.listdir(SD)):
    d = os.path.join(SD, seed)
    if not os.path.isdir(d):
        continue
    notes = open(os.path.join(d, 'notes.md')).read() if os.path.exists(os.path.join(d, 'notes.md')) else ''
    old = {}
    mp = os.path.join(d, 'meta.json')
    if os.path.exists(mp):
        try: old = json.load(open(mp))
        except Exception: old = {}
    title = (re.search(r'^#\s*(.*)$', notes, re.M) or [None, seed])[1].strip()
    files = sorted(set(re.findall(r'^\+\+\+ b/(\S+)', open(os.path.join(d, 'patch.diff')).read(), re.M)))
    res = mx.get(seed, {})
    caught = sorted(p for p, r in res.items() if isinstance(r, dict) and r.get('exit') == 1)
    withinput = sorted(p for p, r in res.items() if isinstance(r, dict) and r.get('with_replayed_input', 0) > 0)
    own = seed.split('_')[0]
    meta = {
        'property': own,
        'title': title,
        'files_changed': files,
        'change': section(notes, 'Change', 'The change', 'What changed')[:1500],
        'breaks': section(notes, 'Property clause broken', 'Clause', 'Why it breaks', 'Property')[:1500],
        'needs': section(notes, 'What is needed for it to manifest', 'What it needs', 'Needs', 'Trigger')[:1500],
        'demonstration': 'zz_seed_demo_test.go (copied into the package named in its package clause; passes on the unchanged tree, fails with the patch)',
        'ran': 'selftest/seedtool.py validate %s (scratch worktree of /repo: patch applies, builds, the pinned suite passes with it, the demonstration passes without it and fails with it); selftest/seedmatrix.py %s (quick check of every claimed property against a scratch worktree with the patch applied)' % (seed, seed),
        'caught_by': ['bin/check %s quick' % p for p in caught],
        'caught_with_replayed_input': withinput,
        'own_property_check_catches_it': own in caught,
        'first_failed_obligations': (res.get(own, {}) or {}).get('first', []) if isinstance(res.get(own), dict) else [],
    }
    if 'demo_flags' in old:
        meta['demo_flags'] = old['demo_flags']
    json.dump(meta, open(mp, 'w'), indent=1)
    print(seed, 'caught_by', caught)
