#!/usr/bin/env python3
"""enginechecks.py: must-fail checks of the verifier itself. Each case edits a *contract* (never code) in a scratch
worktree of /repo so that the contract becomes false, and expects the named obligation to fail. A case that verifies
means the engine accepts something false (a soundness or vacuity hole). Run after every engine change.
Exit 0 when every case fails as expected."""
import os, re, subprocess, sys, tempfile, shutil
ENV = dict(os.environ, GOFLAGS='-mod=mod', GOPROXY='off', GOSUMDB='off', GOTOOLCHAIN='local')
GOVC = os.environ.get('GOVC', '/verif/bin/govc')
CASES = [
    # (name, contract file, text to find, replacement, functions, obligation that must FAIL)
    ('ghost counters are unknown at loop heads: an invariant true of the first iteration only',
     'producer/zz_contracts_verif.go',
     '//@     invariant rs != nil && rs.logger != nil && ec != nil && 0 <= i && calls_Fprintf',
     '//@     invariant i <= 1\n//@     invariant rs != nil && rs.logger != nil && ec != nil && 0 <= i && calls_Fprintf',
     'producer.RawSocket.inputMsg', r'inputMsg#inv\.pres\.1@loop2\.inv1'),
    ('a false postcondition of a straight-line function',
     'reader/zz_contracts_verif.go',
     '//@ func (*Reader).Len\n',
     '//@ func (*Reader).Len\n//@   ensures [bogus] result == 0\n',
     'reader.Reader.Len', r'Len#post\.1@bogus'),
    ('a contradictory precondition is reported by the vacuity cover',
     'reader/zz_contracts_verif.go',
     '//@ func (*Reader).Len\n',
     '//@ func (*Reader).Len\n//@   requires len(r.data) < 0\n',
     'reader.Reader.Len', r'Len#cover\.pre'),
    ('a step clause that skips an element of the decoded sequence',
     'netflow/v9/zz_contracts_verif.go',
     '//@     invariant [sum] n == sumLen9(tr.ScopeFieldSpecifiers, range_i) && sumStep9(tr.ScopeFieldSpecifiers, range_i)',
     '//@     invariant [sum] n == sumLen9(tr.ScopeFieldSpecifiers, range_i) + 1 && sumStep9(tr.ScopeFieldSpecifiers, range_i)',
     'netflow.v9.TemplateRecord.minRecordLen', r'minRecordLen#inv\.init\.1@loop1\.sum'),
    ('the recursive sum is not provable without its step instances (no free lunch from the axioms)',
     'netflow/v9/zz_contracts_verif.go',
     '//@   ensures [def] result == specMinRec9(tr)',
     '//@   ensures [def] result == specMinRec9(tr) + 1',
     'netflow.v9.TemplateRecord.minRecordLen', r'minRecordLen#post\.1@def'),
    ('old() is the entry state even when the change happens in straight-line code before any branch',
     'ipfix/zz_contracts_verif.go',
     '&& calls_Marshal == old(calls_Marshal) + 1',
     '&& calls_Marshal == old(calls_Marshal)',
     'ipfix.MemCache.Dump', r'Dump#post\.1@written\.ret3'),
]
def sh(cmd, cwd=None):
    p = subprocess.run(cmd, cwd=cwd, env=ENV, capture_output=True, text=True, timeout=1800)
    return p.returncode, p.stdout + p.stderr
def main():
    bad = 0
    for name, cf, find, repl, funcs, must in CASES:
        wt = tempfile.mkdtemp(prefix='ec_wt_', dir='/tmp'); os.rmdir(wt)
        try:
            rc, out = sh(['git', '-C', '/repo', 'worktree', 'add', '--detach', wt, 'HEAD'])
            assert rc == 0, out
            # the contracts of the working tree (not only the committed ones)
            for d in ['reader', 'ipfix', 'netflow/v9', 'netflow/v5', 'sflow', 'packet', 'vflow', 'producer', 'mirror']:
                shutil.copy(os.path.join('/repo', d, 'zz_contracts_verif.go'), os.path.join(wt, d, 'zz_contracts_verif.go'))
            path = os.path.join(wt, cf)
            s = open(path).read()
            if find not in s:
                print('CASE NOT APPLICABLE (contract text changed):', name); bad += 1; continue
            open(path, 'w').write(s.replace(find, repl, 1))
            rc, out = sh([GOVC, '-repo', wt, '-verif', '/verif', '-funcs', funcs, '-v'])
            failed = [l for l in out.splitlines() if re.search(r'^\s*(FAIL|VACUOUS|COVER-FAIL)', l) and re.search(must, l)]
            if not failed:
                failed = [l for l in out.splitlines() if re.search(must, l) and not re.match(r'\s*ok\b', l)]
            if failed:
                print('ok (fails as it must):', name, '—', failed[0].strip()[:140])
            else:
                print('HOLE: verifies although false:', name)
                print('\n'.join(l for l in out.splitlines() if re.search(must, l))[:600] or out[-600:])
                bad += 1
        finally:
            sh(['git', '-C', '/repo', 'worktree', 'remove', '--force', wt]); shutil.rmtree(wt, ignore_errors=True)
    print('%d of %d engine checks behave' % (len(CASES) - bad, len(CASES)))
    sys.exit(1 if bad else 0)
if __name__ == '__main__':
    main()
